#!/bin/sh
# offline set-up: nothing to fetch; builds re-creatable caches under build/
cd "$(dirname "$0")" && mkdir -p build out evidence && exit 0
