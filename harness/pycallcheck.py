"""C04 executed half: modules of the 'call' profile are generated, compiled against the rendered instrumented library,
imported, and driven through the session plan TLC computes with spec/PyCall.tla; every step's library log, exception and
result kind is compared with the plan."""
import json
import os
import shutil
import tempfile

import cases
import common
import layout
import pycheck
import pyexec
import tlc


FACTS = {}      # module id -> facts of PyCall!Facts (filled by plans_for)


def plans_for(batch, timeout=1800):
    fd, path = tempfile.mkstemp(prefix="pycall_", suffix=".json")
    try:
        with os.fdopen(fd, "w") as f:
            json.dump(batch, f)
        r = tlc.run("PyCallPlan", "PyCallPlan.cfg", env={"TRACE_FILE": path}, timeout=timeout)
    finally:
        os.unlink(path)
    plans = {t[1]: json.loads(t[2]) for t in r.by_tag("PLAN")}
    if len(plans) != len(batch):
        raise RuntimeError("PyCallPlan: %d plans for %d modules" % (len(plans), len(batch)))
    FACTS.update({t[1]: json.loads(t[2]) for t in r.by_tag("FACTS")})
    return plans, r


def judge(st, ob):
    """-> '' or the failing clause of one executed step"""
    want_ret = st["ret"]
    if st["op"] == "expose":
        if ob["exc"]:
            return "C03:declared-module-or-class-missing"
        got, want = set(ob.get("exposed", [])), set(st["pos"])
        if st["name"] == "class":
            got -= {"name", "value"}                  # (attributes pybind11 gives every enum-like object)
        if got - want:
            return "C03:undeclared-name-exposed"
        return "C03:declared-name-not-exposed" if want - got else ""
    if ob["exc"] != st["exc"]:
        # a result type that is not registered with Python cannot be converted: the entity ran, nothing to compare
        if want_ret == "any" and ob["exc"] == "TypeError" and [l.replace(", ", ",") for l in ob["log"]] == [l.replace(", ", ",") for l in st["log"]]:
            return ""
        if st["exc"]:
            return "C04:read-only-property-is-writable" if st["op"] == "setprop" else "C04:expected-exception-missing"
        return "C04:binding-call-raises"
    # (the blank after the comma between template arguments is not part of an entity's identity)
    if [l.replace(", ", ",") for l in ob["log"]] != [l.replace(", ", ",") for l in st["log"]]:
        return "C04:binding-does-not-forward-as-declared"
    if st["exc"]:
        return ""
    got = ob["ret"]
    if want_ret == "any":
        return ""
    if want_ret.startswith("val:"):
        try:
            lit = eval(want_ret[4:], {"__builtins__": {}})
        except Exception as e:  # noqa: BLE001
            raise RuntimeError("plan literal %r: %s" % (want_ret, e))
        if isinstance(lit, float) or got["kind"] == "float":
            ok = got["kind"] in ("float", "int") and float(eval(got["repr"], {"__builtins__": {}})) == float(lit)
        else:
            ok = got["repr"] == repr(lit)
        return "" if ok else "C04:value-differs-from-declared"
    if want_ret == "none":
        return "" if got["kind"] == "none" else "C04:void-binding-returns-a-value"
    return "" if got["kind"] == want_ret else ("C04:non-void-result-not-returned" if got["kind"] == "none" else "C04:result-kind-differs")


def exec_job(item):
    mid, text, tree, plan, pch = item
    d = tempfile.mkdtemp(prefix="c04x_")
    try:
        b = pyexec.build(d, text, tree, pch)
        if b[0] == "control-fails":
            raise RuntimeError("rendered library does not compile on its own (harness defect):\n%s\n%s" % (b[1], text))
        if b[0] != "ok":
            return mid, b[0], b[1], []
        obs = pyexec.run_plan(d, plan)
        if isinstance(obs, dict):
            return mid, "import-or-driver-crash", obs, []
        if len(obs) != len(plan):
            raise RuntimeError("driver returned %d observations for %d steps" % (len(obs), len(plan)))
        bad = []
        for k, (st, ob) in enumerate(zip(plan, obs)):
            c = judge(st, ob)
            if c:
                bad.append((c, k, st, ob))
        return mid, "ok", None, bad
    finally:
        shutil.rmtree(d, ignore_errors=True)


def class_cpps(inst):
    out = []
    for d in inst:
        if d["k"] == "namespace":
            out += class_cpps(d["items"])
        elif d["k"] in ("class", "fwdinst"):
            out.append(d["cpp"])
    return out


def run(rep, thorough, pid="C04"):
    """clauses C04:* (forwarding) are reported when pid = C04, clauses C03:* (exposure) when pid = C03"""
    pch = pyexec.ensure_pch()
    n = (400 if thorough else 32) if pid == "C04" else (200 if thorough else 20)
    cs, r = cases.simulate(n=n, seed=rep.seed + 11, target=12, members=8, profile="call")
    cs2, r2 = cases.simulate(n=n // 4, seed=rep.seed + 12, target=18, members=8, profile="call")
    rep.count("states", r.generated + r2.generated)
    rep.count("transitions", r.generated + r2.generated)
    batch, meta = [], {}
    skipped = {}
    for k, c in enumerate(cs + cs2):
        text = layout.render(c["toks"])
        ob = pycheck.observe(text)
        if ob["outcome"] != "ok":
            skipped[ob["outcome"]] = skipped.get(ob["outcome"], 0) + 1
            continue
        cpps = class_cpps(ob["inst"])
        if len(cpps) != len(set(cpps)):
            # one C++ type bound under two Python names (instantiation list entry + typedef of the same arguments):
            # pybind11 refuses the second registration at import - not a generator matter, not judged
            skipped["not-judged:same-type-bound-twice"] = skipped.get("not-judged:same-type-bound-twice", 0) + 1
            continue
        lex = pycheck.lex_facts(ob["inst"])
        lex["st"] = {x["cpp"]: x["st"] for x in ob["spell"]}
        mid = "x%d" % k
        batch.append({"id": mid, "inst": ob["inst"], "lex": lex})
        meta[mid] = (c["origin"], text, c["tree"])
    plans, rt = plans_for(batch)
    rep.count("states", rt.distinct)
    rep.count("transitions", rt.generated)
    items = [(mid, meta[mid][1], meta[mid][2], plans[mid], pch) for mid in meta if plans[mid]]
    res = common.pmap(exec_job, items, chunksize=1)
    nsteps, ops, outcomes = 0, {}, {}
    for mid, outcome, detail, bad in res:
        outcomes[outcome] = outcomes.get(outcome, 0) + 1
        origin, text, _tree = meta[mid]
        if outcome == "compile-error":
            if pid == "C04":
                rep.violation("C04:generated-module-does-not-build", "", {"origin": origin, "text": text, "errors": detail})
        elif outcome == "gen-exc":
            continue
        elif outcome != "ok":
            if pid == "C04":
                rep.violation("C04:generated-module-does-not-import", "", {"origin": origin, "text": text, "detail": detail})
        else:
            nsteps += len(plans[mid])
            for st in plans[mid]:
                ops[st["op"]] = ops.get(st["op"], 0) + 1
            for clause, k, st, ob in [b for b in bad if b[0].startswith(pid + ":")][:3]:
                rep.violation(clause, "", {"origin": origin, "text": text, "step": k, "plan_step": st, "observed": ob,
                                           "session": [(s["op"], ".".join(s["path"]), s["name"]) for s in plans[mid][:k + 1]][-12:]})
    rep.count("traces_validated_against_impl", len(items))
    rep.count("evaluations", len(items))
    rep.cov["executed_modules"] = outcomes
    rep.cov["executed_steps"] = nsteps
    rep.cov["executed_steps_by_kind"] = ops
    rep.cov["call_profile_modules_not_executed"] = skipped
    if items:
        rep.sample({"executed_module": items[0][1][:300], "plan_head": [(s["op"], ".".join(s["path"]), s["name"], s["pos"], s["log"]) for s in items[0][3][:6]]})
