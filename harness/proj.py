"""Projections of the implementation's parse result / instantiated tree onto the record shapes of spec/Iface.tla.
Structure only: no expectation lives here.  Every record carries all fields of its kind (TLC-side JSON rule)."""
import os
import sys

REPO = os.environ.get("VERIF_REPO", "/repo")
if REPO not in sys.path:
    sys.path.insert(0, REPO)

import gtwrap.interface_parser as parser  # noqa: E402
import gtwrap.template_instantiator as instantiator  # noqa: E402

NOTYPE = {"qn": [], "args": [], "const": False, "q": "", "basic": False}


class ProjectionError(Exception):
    """The object graph has a shape the projection does not know: machinery failure, never a verdict."""


def _qual(t):
    qs = [s for s, f in (("*", t.is_shared_ptr), ("@", t.is_ptr), ("&", t.is_ref)) if f]
    if len(qs) > 1:
        raise ProjectionError("type with more than one pointer/reference marker: %r" % (t,))
    return qs[0] if qs else ""


def p_typename(tn):
    """Typename -> type record without qualifiers."""
    if not isinstance(tn, parser.Typename):
        raise ProjectionError("not a Typename: %r (%s)" % (tn, type(tn)))
    return {"qn": [str(x) for x in tn.namespaces] + [str(tn.name)],
            "args": [p_typename(i) for i in tn.instantiations],
            "const": False, "q": "", "basic": False}


def p_type(t, view="params"):
    """Type | TemplatedType -> type record.  view='params' reads TemplatedType.template_params (qualifiers at
    every level); view='typename' reads typename.instantiations (the second copy the parser keeps)."""
    if isinstance(t, parser.TemplatedType):
        if view == "params":
            args = [p_type(p, view) for p in t.template_params]
        else:
            args = [p_typename(i) for i in t.typename.instantiations]
        return {"qn": [str(x) for x in t.typename.namespaces] + [str(t.typename.name)], "args": args,
                "const": bool(t.is_const), "q": _qual(t), "basic": False}
    if isinstance(t, parser.Type):
        return {"qn": [str(x) for x in t.typename.namespaces] + [str(t.typename.name)],
                "args": [p_typename(i) for i in t.typename.instantiations],
                "const": bool(t.is_const), "q": _qual(t), "basic": bool(t.is_basic)}
    raise ProjectionError("not a type: %r (%s)" % (t, type(t)))


def p_arg(a, view):
    return {"t": p_type(a.ctype, view), "name": str(a.name), "hasdef": a.default is not None,
            "def": "" if a.default is None else str(a.default)}


def p_args(al, view):
    return [p_arg(a, view) for a in al.list()]


def p_ret(r, view):
    if r.type2:
        return {"pair": True, "t1": p_type(r.type1, view), "t2": p_type(r.type2, view)}
    return {"pair": False, "t1": p_type(r.type1, view), "t2": dict(NOTYPE)}


def p_tmpl(t):
    if not t:
        return []
    if not isinstance(t, parser.Template):
        raise ProjectionError("not a Template: %r" % (t,))
    return [{"name": str(n), "insts": [p_typename(i) for i in insts]}
            for n, insts in zip(t.typenames, t.instantiations)]


def p_enum(e):
    return {"k": "enum", "name": str(e.name), "enumerators": [str(x.name) for x in e.enumerators]}


def p_class(c, view):
    pc = c.parent_class
    if not pc:
        hasbase, base = False, dict(NOTYPE)
    elif isinstance(pc, parser.TemplatedType):
        # a base class is a typename: the instantiator consumes `.typename` of a templated base
        hasbase, base = True, p_typename(pc.typename)
    elif isinstance(pc, parser.Typename):
        hasbase, base = True, p_typename(pc)
    else:
        raise ProjectionError("base class of unknown shape: %r" % (pc,))
    return {
        "k": "class", "name": str(c.name), "tmpl": p_tmpl(c.template), "virtual": bool(c.is_virtual),
        "hasbase": hasbase, "base": base,
        "ctors": [{"k": "ctor", "name": str(m.name), "tmpl": p_tmpl(m.template), "args": p_args(m.args, view)}
                  for m in c.ctors],
        "methods": [{"k": "method", "name": str(m.name), "tmpl": p_tmpl(m.template),
                     "ret": p_ret(m.return_type, view), "args": p_args(m.args, view), "const": bool(m.is_const)}
                    for m in c.methods],
        "statics": [{"k": "static", "name": str(m.name), "tmpl": p_tmpl(m.template),
                     "ret": p_ret(m.return_type, view), "args": p_args(m.args, view)}
                    for m in c.static_methods],
        "props": [{"k": "prop", "t": p_type(m.ctype, view), "name": str(m.name), "hasdef": m.default is not None,
                   "def": "" if m.default is None else str(m.default)} for m in c.properties],
        "ops": [{"k": "operator", "op": str(m.operator), "ret": p_ret(m.return_type, view),
                 "args": p_args(m.args, view), "const": bool(m.is_const)} for m in c.operators],
        "dunders": [{"k": "dunder", "name": str(m.name), "args": p_args(m.args, view)} for m in c.dunder_methods],
        "enums": [p_enum(e) for e in c.enums],
    }


def p_decl(d, view):
    if isinstance(d, parser.Namespace):
        return {"k": "namespace", "name": str(d.name), "items": [p_decl(x, view) for x in d.content]}
    if isinstance(d, parser.Class):
        return p_class(d, view)
    if isinstance(d, parser.Include):
        return {"k": "include", "header": str(d.header)}
    if isinstance(d, parser.ForwardDeclaration):
        return {"k": "fwd", "qn": p_typename(d.typename)["qn"], "virtual": bool(d.is_virtual),
                "hasparent": bool(d.parent_type),
                "parent": p_typename(d.parent_type)["qn"] if d.parent_type else []}
    if isinstance(d, parser.TypedefTemplateInstantiation):
        return {"k": "typedef", "t": p_typename(d.typename), "newname": str(d.new_name)}
    if isinstance(d, parser.GlobalFunction):
        return {"k": "function", "name": str(d.name), "tmpl": p_tmpl(d.template), "ret": p_ret(d.return_type, view),
                "args": p_args(d.args, view)}
    if isinstance(d, parser.Enum):
        return p_enum(d)
    if isinstance(d, parser.Variable):
        return {"k": "variable", "t": p_type(d.ctype, view), "name": str(d.name), "hasdef": d.default is not None,
                "def": "" if d.default is None else str(d.default)}
    raise ProjectionError("unknown declaration node %r (%s)" % (d, type(d)))


def proj_tree(module, view="params"):
    """Module (the Namespace returned by Module.parseString) -> list of AIT items."""
    if not isinstance(module, parser.Namespace) or module.name != "":
        raise ProjectionError("parse result is not the global namespace: %r" % (module,))
    return [p_decl(x, view) for x in module.content]


def strip_quals(t):
    return {"qn": t["qn"], "args": [strip_quals(a) for a in t["args"]], "const": False, "q": "", "basic": False}


def typename_view_of(tree):
    """What the 'typename' view must be, given the 'params' view: template arguments without qualifiers
    (the outermost qualifiers of each type are kept by both views)."""
    def fix(x):
        if isinstance(x, dict):
            if set(x.keys()) == {"qn", "args", "const", "q", "basic"}:
                return {"qn": x["qn"], "args": [strip_quals(a) for a in x["args"]], "const": x["const"],
                        "q": x["q"], "basic": x["basic"]}
            return {k: fix(v) for k, v in x.items()}
        if isinstance(x, list):
            return [fix(v) for v in x]
        return x
    return fix(tree)


def parent_links(module):
    """Second observation of scoping: for every scoped node the namespace path read from its own parent chain,
    next to the path by containment.  Returns list of (kind, name, by_containment, by_parent_chain)."""
    out = []

    def walk(ns, path):
        for d in ns.content:
            if isinstance(d, parser.Namespace):
                chain = [x for x in d.full_namespaces() if x != ""]
                out.append(("namespace", d.name, path + [d.name], chain))
                walk(d, path + [d.name])
            elif isinstance(d, (parser.Class, parser.Enum, parser.ForwardDeclaration)):
                chain = [x for x in d.namespaces() if x != ""]
                out.append((type(d).__name__, d.name, path, chain))
                if isinstance(d, parser.Class):
                    for m in list(d.ctors) + list(d.methods) + list(d.static_methods) + list(d.properties) + \
                            list(d.dunder_methods):
                        if getattr(m, "parent", None) is not d:
                            out.append(("member-of-" + d.name, getattr(m, "name", "?"), ["<class>"], ["<other>"]))
            else:
                if getattr(d, "parent", None) is not ns:
                    out.append((type(d).__name__, getattr(d, "name", "?"), path, ["<other>"]))
    walk(module, [])
    return out


def diff(a, b, path=""):
    """First difference between two JSON values, as a human readable string ('' if equal)."""
    if type(a) != type(b):
        return "%s: %r != %r" % (path, a, b)
    if isinstance(a, dict):
        for k in sorted(set(a) | set(b)):
            if k not in a or k not in b:
                return "%s.%s: missing on one side" % (path, k)
            d = diff(a[k], b[k], path + "." + k)
            if d:
                return d
        return ""
    if isinstance(a, list):
        if len(a) != len(b):
            return "%s: length %d != %d (%s vs %s)" % (path, len(a), len(b), _short(a), _short(b))
        for i, (x, y) in enumerate(zip(a, b)):
            d = diff(x, y, "%s[%d]" % (path, i))
            if d:
                return d
        return ""
    return "" if a == b else "%s: %r != %r" % (path, a, b)


def _short(x):
    s = repr(x)
    return s if len(s) < 120 else s[:117] + "..."


# ------------------------------------------------------------------------------------------------
# instantiated tree (record shapes of spec/Instantiate.tla)
SPELL = None      # when a list: s_type records (structure, spelling) of every type it projects (see pycheck.observe)


def s_type(t):
    """instantiated type as observed: C++ spelling + the qualifier flags of the object"""
    if SPELL is not None:
        SPELL.append({"st": p_type(t, "params"), "cpp": t.to_cpp()})
    return {"cpp": t.to_cpp(), "const": bool(t.is_const), "q": _qual(t), "cls": ""}


NOST = {"cpp": "", "const": False, "q": "", "cls": ""}


def s_args(al):
    return [{"t": s_type(a.ctype), "name": str(a.name), "hasdef": a.default is not None,
             "def": "" if a.default is None else str(a.default)} for a in al.list()]


def s_ret(r):
    if r.type2:
        return {"pair": True, "t1": s_type(r.type1), "t2": s_type(r.type2)}
    return {"pair": False, "t1": s_type(r.type1), "t2": dict(NOST)}


def i_class(c):
    pc = c.parent_class
    return {
        "k": "class", "name": str(c.name), "cpp": c.to_cpp(), "virtual": bool(c.is_virtual),
        "hasbase": bool(pc), "base": str(pc) if pc else "",
        "ctors": [{"k": "ctor", "name": str(m.name), "args": s_args(m.args)} for m in c.ctors],
        "methods": [{"k": "method", "name": str(m.name), "cpp": m.to_cpp(), "ret": s_ret(m.return_type),
                     "args": s_args(m.args), "const": bool(m.is_const)} for m in c.methods],
        "statics": [{"k": "static", "name": str(m.name), "cpp": m.to_cpp(), "ret": s_ret(m.return_type),
                     "args": s_args(m.args)} for m in c.static_methods],
        "props": [{"k": "prop", "t": s_type(m.ctype), "name": str(m.name), "hasdef": m.default is not None,
                   "def": "" if m.default is None else str(m.default)} for m in c.properties],
        "ops": [{"k": "operator", "op": str(m.operator), "ret": s_ret(m.return_type), "args": s_args(m.args),
                 "const": bool(m.is_const)} for m in c.operators],
        "dunders": [{"k": "dunder", "name": str(m.name), "args": s_args(m.args)} for m in c.dunder_methods],
        "enums": [p_enum(e) for e in c.enums],
    }


def i_decl(d):
    if isinstance(d, instantiator.InstantiatedClass):
        return i_class(d)
    if isinstance(d, instantiator.InstantiatedGlobalFunction):
        return {"k": "function", "name": str(d.name), "cpp": d.to_cpp(), "ret": s_ret(d.return_type),
                "args": s_args(d.args)}
    if isinstance(d, instantiator.InstantiatedDeclaration):
        return {"k": "fwdinst", "name": str(d.name), "cpp": d.to_cpp()}
    if isinstance(d, parser.Namespace):
        return {"k": "namespace", "name": str(d.name), "items": [i_decl(x) for x in d.content]}
    if isinstance(d, (parser.Class, parser.GlobalFunction, parser.TypedefTemplateInstantiation)):
        raise ProjectionError("uninstantiated %s left in the instantiated tree" % type(d).__name__)
    return p_decl(d, "params")


def proj_inst(module):
    return [i_decl(x) for x in module.content]


# ------------------------------------------------------------------------------------------------
# MATLAB-oriented view of the instantiated tree (record shapes of spec/Mex.tla): the MATLAB generator formats types from
# the typename structure (name, namespaces, instantiations), not from the C++ spelling
def m_typename(tn):
    return {"name": str(tn.name), "ns": [str(x) for x in tn.namespaces if str(x) != ""],
            "insts": [m_typename(i) for i in tn.instantiations], "cpp": tn.to_cpp()}


def m_type(t):
    d = m_typename(t.typename)
    d.update({"const": bool(t.is_const), "shared": bool(t.is_shared_ptr), "ptr": bool(t.is_ptr), "ref": bool(t.is_ref)})
    return d


M_NOTYPE = {"name": "", "ns": [], "insts": [], "cpp": "", "const": False, "shared": False, "ptr": False, "ref": False}


def m_args(al):
    return [{"t": m_type(a.ctype), "name": str(a.name), "hasdef": a.default is not None,
             "def": "" if a.default is None else str(a.default)} for a in al.list()]


def m_ret(r):
    if r.type2:
        return {"pair": True, "t1": m_type(r.type1), "t2": m_type(r.type2)}
    return {"pair": False, "t1": m_type(r.type1), "t2": dict(M_NOTYPE)}


def m_class(c, nspath):
    pc = c.parent_class
    return {"k": "class", "name": str(c.name), "cpp": c.to_cpp(), "nspath": nspath, "virtual": bool(c.is_virtual),
            "templated": bool(c.instantiations), "hasbase": bool(pc), "base": m_typename(pc) if pc else
            {"name": "", "ns": [], "insts": [], "cpp": ""},
            "ctors": [{"args": m_args(m.args)} for m in c.ctors],
            "methods": [{"name": str(m.name), "orig": str(m.original.name), "cpp": m.to_cpp(),
                         "ret": m_ret(m.return_type), "args": m_args(m.args)} for m in c.methods],
            "statics": [{"name": str(m.name), "orig": str(m.original.name), "cpp": m.to_cpp(),
                         "ret": m_ret(m.return_type), "args": m_args(m.args)} for m in c.static_methods],
            "props": [{"name": str(p.name), "t": m_type(p.ctype)} for p in c.properties],
            "enums": [p_enum(e) for e in c.enums]}


def m_items(ns, nspath):
    out = []
    for d in ns.content:
        if isinstance(d, instantiator.InstantiatedClass):
            out.append(m_class(d, nspath))
        elif isinstance(d, parser.GlobalFunction):
            out.append({"k": "function", "name": str(d.name), "cpp": d.to_cpp() if hasattr(d, "to_cpp") else str(d.name),
                        "nspath": nspath, "ret": m_ret(d.return_type), "args": m_args(d.args)})
        elif isinstance(d, parser.Namespace):
            out.append({"k": "namespace", "name": str(d.name), "items": m_items(d, nspath + [str(d.name)])})
        elif isinstance(d, parser.Enum):
            out.append(p_enum(d))
        elif isinstance(d, parser.Include):
            out.append({"k": "include", "header": str(d.header)})
        elif isinstance(d, instantiator.InstantiatedDeclaration):
            out.append({"k": "fwdinst", "name": str(d.name), "cpp": d.to_cpp()})
        else:
            out.append({"k": "other", "name": str(getattr(d, "name", ""))})
    return out


def proj_minst(module):
    return m_items(module, [])
