"""Interface text -> the token vocabulary of spec/Iface.tla (C++ lexing + two dialect conventions:
a default value is one opaque token, '#include' is followed by one '<header>' token).  Used for inputs that do
not come from the specification (fixtures, accepted corrupted inputs).  Comments and whitespace are dropped."""
import re

OPERATOR_SYMS = sorted(["+", "-", "*", "/", "%", "^", "&", "|", "+=", "-=", "*=", "/=", "%=", "^=", "&=", "|=",
                        "<<", "<<=", ">>", ">>=", "==", "!=", "<", ">", "<=", ">=", "()", "[]"],
                       key=len, reverse=True)
_IDENT = re.compile(r"[A-Za-z_][A-Za-z0-9_]*|[0-9]+")
_OPEN = {"(": ")", "[": "]", "{": "}", "<": ">"}


class LexError(Exception):
    pass


def strip_comments(text):
    """Replace comments by a blank, leaving string/char literals alone."""
    out = []
    i, n = 0, len(text)
    while i < n:
        c = text[i]
        if c in "\"'":
            j = i + 1
            while j < n and text[j] != c:
                j += 2 if text[j] == "\\" else 1
            out.append(text[i:j + 1])
            i = j + 1
        elif text.startswith("//", i):
            j = text.find("\n", i)
            j = n if j < 0 else j
            out.append(" ")
            i = j
        elif text.startswith("/*", i):
            j = text.find("*/", i + 2)
            if j < 0:
                raise LexError("unterminated comment")
            out.append(" ")
            i = j + 2
        else:
            out.append(c)
            i += 1
    return "".join(out)


def _default_end(s, i):
    """Index just after a default-value expression starting at s[i]: up to ',' ')' ';' '>' at depth 0."""
    depth = []
    n = len(s)
    while i < n:
        c = s[i]
        if c in "\"'":
            j = i + 1
            while j < n and s[j] != c:
                j += 1
            i = j + 1
            continue
        if c in _OPEN:
            depth.append(_OPEN[c])
        elif depth and c == depth[-1]:
            depth.pop()
        elif not depth and c in ",);":
            return i
        i += 1
    return n


def lex(text):
    s = strip_comments(text)
    toks = []
    i, n = 0, len(s)
    tmpl_depth = 0          # > 0 while inside a `template < ... >` header
    pending_tmpl = False
    while i < n:
        c = s[i]
        if c.isspace():
            i += 1
            continue
        if s.startswith("#include", i):
            i += 8
            while i < n and s[i].isspace():
                i += 1
            if i < n and s[i] == "<":
                j = s.find(">", i)
                if j < 0:
                    raise LexError("unterminated #include")
                toks.append("#include " + s[i:j + 1])
                i = j + 1
            else:
                toks.append("#include")
            continue
        m = _IDENT.match(s, i)
        if m:
            w = m.group(0)
            toks.append(w)
            i = m.end()
            if w == "template":
                pending_tmpl = True
            elif w == "operator":
                while i < n and s[i].isspace():
                    i += 1
                for sym in OPERATOR_SYMS:
                    if s.startswith(sym, i):
                        toks.append(sym)
                        i += len(sym)
                        break
            continue
        if s.startswith("::", i):
            toks.append("::")
            i += 2
            continue
        if c == "<":
            if pending_tmpl:
                tmpl_depth = 1
                pending_tmpl = False
            elif tmpl_depth:
                tmpl_depth += 1
            toks.append(c)
            i += 1
            continue
        if c == ">":
            if tmpl_depth:
                tmpl_depth -= 1
            toks.append(c)
            i += 1
            continue
        if c == "=" and not tmpl_depth:
            toks.append("=")
            i += 1
            while i < n and s[i].isspace():
                i += 1
            j = _default_end(s, i)
            toks.append(s[i:j].strip())
            i = j
            continue
        pending_tmpl = False
        toks.append(c)
        i += 1
    return toks
