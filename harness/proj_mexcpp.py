"""Scanner for the ``<module>_wrapper.cpp`` file emitted by gtwrap's MATLAB
wrapper generator (``gtwrap/matlab_wrapper/wrapper.py`` + ``templates.py``).

``scan_cpp(text)`` extracts STRUCTURE ONLY: it knows what the generator's text
looks like, not what a particular interface "should" produce.  Text that does
not have one of the known shapes raises :class:`ScanError`; the scanner never
guesses and never skips a non-blank line.

Conventions
-----------
* Lines are compared after stripping leading/trailing white space, spacing
  inside a line is significant.  Blank lines carry no structure and are
  ignored.  A routine ends at the first line that is exactly ``}`` in column 0
  (this is how the generator closes every routine).
* All returned values are str / int / bool / list / dict (JSON serialisable).

Routine kinds and how they are recognised (by body shape, never by name):

``collector``     mexAtExit, ``Shared *self = *reinterpret_cast<Shared**> (...)``
``upcast``        mexAtExit, ``std::shared_ptr<void> *asVoid = ...``
``constructor``   mexAtExit, unwraps, ``Shared *self = new Shared(new T(...));``
``deconstructor`` ``typedef ... Shared;`` checkArguments, find/erase/delete
``serialize``     ``typedef ... Shared;`` checkArguments, ``Shared obj = ...``
``deserialize``   ``typedef ... Shared;`` checkArguments, ``string serialized``
``call``          starts with checkArguments

Key returned per routine in addition to the ones required by the
specification: ``self_out_index`` -- k of the ``out[k]`` that receives the new
object pointer in ``constructor`` / ``upcast`` routines (-1 otherwise).

In ``serialize`` routines the ``Shared obj = unwrap_shared_ptr<T>(in[0], ...)``
line is reported as ``self_unwrap``.  In ``deserialize`` routines the fixed
``string serialized = unwrap< string >(in[0]);`` line is part of the routine
shape and is *not* listed in ``unwraps``.
"""

import re

__all__ = ["ScanError", "scan_cpp"]


class ScanError(Exception):
    """The text does not have a shape the generator is known to emit."""


# ---------------------------------------------------------------------------
# Small helpers for C++ expression text
# ---------------------------------------------------------------------------

_OPEN = {"(": ")", "[": "]", "{": "}"}
_CLOSE = {")", "]", "}"}


def _skip_literal(text, i):
    """``text[i]`` is a quote; return the index just after the literal."""
    quote = text[i]
    j = i + 1
    while j < len(text):
        if text[j] == "\\":
            j += 2
            continue
        if text[j] == quote:
            return j + 1
        j += 1
    raise ScanError("unterminated literal in %r" % text)


def _match_close(text, i):
    """``text[i]`` is an opening bracket; return the index of its partner.

    Respects nesting of (), [], {} and skips string / character literals.
    """
    stack = []
    j = i
    while j < len(text):
        ch = text[j]
        if ch in "\"'":
            j = _skip_literal(text, j)
            continue
        if ch in _OPEN:
            stack.append(_OPEN[ch])
        elif ch in _CLOSE:
            if not stack or stack.pop() != ch:
                raise ScanError("unbalanced %r in %r" % (ch, text))
            if not stack:
                return j
        j += 1
    raise ScanError("unbalanced %r in %r" % (text[i], text))


def _check_balanced(text):
    """Raise ScanError unless all brackets in ``text`` are balanced."""
    j = 0
    while j < len(text):
        ch = text[j]
        if ch in "\"'":
            j = _skip_literal(text, j)
        elif ch in _OPEN:
            j = _match_close(text, j) + 1
        elif ch in _CLOSE:
            raise ScanError("unbalanced %r in %r" % (ch, text))
        else:
            j += 1


def _split_top_level(text):
    """Split ``text`` at the commas that are outside brackets and literals.

    Angle brackets are *not* treated as brackets (``a<b,c>(x)`` splits in
    two); callers re-join the leading pieces when they only need the tail.
    """
    parts, start, j = [], 0, 0
    while j < len(text):
        ch = text[j]
        if ch in "\"'":
            j = _skip_literal(text, j)
        elif ch in _OPEN:
            j = _match_close(text, j) + 1
        elif ch in _CLOSE:
            raise ScanError("unbalanced %r in %r" % (ch, text))
        elif ch == ",":
            parts.append(text[start:j])
            start = j = j + 1
        else:
            j += 1
    parts.append(text[start:])
    return parts


def _match_angle(text, i):
    """``text[i]`` is ``<`` opening a template argument list (a *type*, so no
    operators occur); return the index of the matching ``>``."""
    depth = 0
    for j in range(i, len(text)):
        if text[j] == "<":
            depth += 1
        elif text[j] == ">":
            depth -= 1
            if depth == 0:
                return j
        elif text[j] in "()\"'":
            break
    raise ScanError("unbalanced '<' in %r" % text)


def _inner_of_call(text, prefix):
    """``text`` must be ``prefix(...)`` exactly; return the ``...``."""
    if not text.startswith(prefix + "("):
        raise ScanError("expected %s(...) in %r" % (prefix, text))
    open_at = len(prefix)
    if _match_close(text, open_at) != len(text) - 1:
        raise ScanError("text after the closing parenthesis in %r" % text)
    return text[open_at + 1:-1]


_MAKE_SHARED = "std::make_shared<"


def _strip_make_shared(expr):
    """``std::make_shared<T>(X)`` -> ``X``; anything else is returned as is."""
    if not expr.startswith(_MAKE_SHARED):
        return expr
    close_angle = _match_angle(expr, len(_MAKE_SHARED) - 1)
    rest = expr[close_angle + 1:]
    if not rest.startswith("(") or _match_close(rest, 0) != len(rest) - 1:
        raise ScanError("cannot parse make_shared expression %r" % expr)
    return rest[1:-1]


def _string_literal_value(text):
    """``text`` must be a plain ``"..."`` literal without escapes."""
    found = re.fullmatch(r'"([^"\\]*)"', text)
    if not found:
        raise ScanError("expected a string literal, got %r" % text)
    return found.group(1)


# ---------------------------------------------------------------------------
# Line cursor
# ---------------------------------------------------------------------------


class _Cursor:
    """Walks over lines; blank lines are skipped, the rest are stripped."""

    def __init__(self, raw_lines, first_lineno=1):
        self.raw = raw_lines
        self.first_lineno = first_lineno
        self.pos = 0
        self._skip_blank()

    def _skip_blank(self):
        while self.pos < len(self.raw) and self.raw[self.pos].strip() == "":
            self.pos += 1

    def at_end(self):
        return self.pos >= len(self.raw)

    def peek(self):
        return None if self.at_end() else self.raw[self.pos].strip()

    def fail(self, message):
        if self.at_end():
            raise ScanError("after line %d (end of text): %s" %
                            (self.first_lineno + len(self.raw) - 1, message))
        raise ScanError("line %d: %s: %r" % (self.first_lineno + self.pos,
                                             message, self.raw[self.pos]))

    def take(self):
        if self.at_end():
            self.fail("unexpected end of text")
        line = self.raw[self.pos].strip()
        self.pos += 1
        self._skip_blank()
        return line

    def accept(self, literal):
        if self.peek() == literal:
            self.take()
            return True
        return False

    def expect(self, literal):
        if self.peek() != literal:
            self.fail("expected %r" % literal)
        self.take()

    def match(self, regex, what):
        line = self.peek()
        found = None if line is None else regex.fullmatch(line)
        if found is None:
            self.fail("expected %s" % what)
        self.take()
        return found

    def try_match(self, regex):
        line = self.peek()
        found = None if line is None else regex.fullmatch(line)
        if found is not None:
            self.take()
        return found

    def try_parse(self, regex, parser):
        """If the current line matches ``regex`` return ``parser(match)`` and
        consume the line, else return None.  A ScanError raised by ``parser``
        is reported with the number of the line being parsed."""
        line = self.peek()
        found = None if line is None else regex.fullmatch(line)
        if found is None:
            return None
        try:
            value = parser(found)
        except ScanError as error:
            self.fail(str(error))
        self.take()
        return value

    def take_body(self):
        """Consume a routine body: all raw lines (blank ones included) after
        the opening brace up to the first line that is ``}`` in column 0, which
        is how the generator closes every routine.  The closing line is
        consumed too.  Returns (line number of the first line, raw lines)."""
        start = self.pos
        while start > 0 and self.raw[start - 1].strip() == "":
            start -= 1  # blank lines skipped after the opening brace
        end = self.pos
        while end < len(self.raw) and self.raw[end].rstrip() != "}":
            end += 1
        self.pos = end
        if self.at_end():
            self.fail("routine body is not closed by '}' in column 0")
        self.take()
        return self.first_lineno + start, self.raw[start:end]

    def parse(self, regex, what, parser):
        """Like ``try_parse`` but the line must match."""
        value = self.try_parse(regex, parser)
        if value is None:
            self.fail("expected %s" % what)
        return value


def _same(cur, values, what):
    """All ``values`` must be equal; returns that value."""
    if len(set(values)) != 1:
        cur.fail("inconsistent %s %r in the lines before" % (what, values))
    return values[0]


# ---------------------------------------------------------------------------
# Preamble: includes, typedefs, export guids, collectors
# ---------------------------------------------------------------------------

_RE_COLLECTOR_TYPEDEF = re.compile(
    r"typedef std::set<std::shared_ptr<(.+)>\*> Collector_(\w+);")
_RE_COLLECTOR_STATIC = re.compile(r"static Collector_(\w+) collector_(\w+);")
_RE_TYPEDEF = re.compile(r"typedef (.+) (\w+);")
_RE_EXPORT_GUID = re.compile(r'BOOST_CLASS_EXPORT_GUID\((.+), "([^"]*)"\);')

_DELETE_ALL_HEADER = "void _deleteAllObjects()"


def _scan_preamble(cur, result):
    """Everything in front of ``void _deleteAllObjects()``.

    The generator emits four sections in a fixed order; a line belonging to an
    earlier section after a later one has started is not understood.
    """
    order = ["include", "typedef", "export guid", "collector"]
    section = 0

    def enter(name):
        nonlocal section
        if order.index(name) < section:
            cur.fail("%s line after the %s section started" %
                     (name, order[section]))
        section = order.index(name)

    while cur.peek() != _DELETE_ALL_HEADER:
        line = cur.peek()
        if line is None:
            cur.fail("missing %r" % _DELETE_ALL_HEADER)
        if cur.raw[cur.pos].startswith("#include"):
            enter("include")
            result["includes"].append(cur.raw[cur.pos])  # verbatim
            cur.take()
            continue
        found = _RE_COLLECTOR_TYPEDEF.fullmatch(line)
        if found:
            enter("collector")
            cur.take()
            static = cur.match(_RE_COLLECTOR_STATIC,
                               "static Collector_NAME collector_NAME;")
            name = _same(cur, [found.group(2), static.group(1),
                               static.group(2)], "collector name")
            result["collectors"].append({"cpp": found.group(1), "name": name})
            continue
        found = _RE_EXPORT_GUID.fullmatch(line)
        if found:
            enter("export guid")
            cur.take()
            result["export_guids"].append({"cpp": found.group(1),
                                           "name": found.group(2)})
            continue
        found = _RE_TYPEDEF.fullmatch(line)
        if found:
            enter("typedef")
            cur.take()
            result["typedefs"].append({"target": found.group(1),
                                       "alias": found.group(2)})
            continue
        cur.fail("not an #include, typedef, BOOST_CLASS_EXPORT_GUID or "
                 "collector declaration")


# ---------------------------------------------------------------------------
# _deleteAllObjects
# ---------------------------------------------------------------------------

_RE_LOOP_HEAD = re.compile(
    r"\{ for\(Collector_(\w+)::iterator iter = collector_(\w+)\.begin\(\);")
_RE_LOOP_COND = re.compile(r"iter != collector_(\w+)\.end\(\); \) \{")
_RE_LOOP_ERASE = re.compile(r"collector_(\w+)\.erase\(iter\+\+\);")
_DELETE_ALL_WARNING = (
    '"WARNING:  Wrap modules with variables in the workspace have been '
    'reloaded due to\\n"',
    '"calling destructors, call \'clear all\' again if you plan to now '
    'recompile a wrap\\n"',
    '"module, so that your recompiled module is used instead of the old '
    'one." << endl;',
)


def _scan_delete_all_objects(cur, result):
    cur.expect(_DELETE_ALL_HEADER)
    cur.expect("{")
    cur.expect("mstream mout;")
    cur.expect("std::streambuf *outbuf = std::cout.rdbuf(&mout);")
    cur.expect("bool anyDeleted = false;")
    while True:
        head = cur.try_match(_RE_LOOP_HEAD)
        if not head:
            break
        cond = cur.match(_RE_LOOP_COND, "iter != collector_NAME.end(); ) {")
        cur.expect("delete *iter;")
        erase = cur.match(_RE_LOOP_ERASE, "collector_NAME.erase(iter++);")
        cur.expect("anyDeleted = true;")
        cur.expect("} }")
        result["delete_loops"].append(
            _same(cur, [head.group(1), head.group(2), cond.group(1),
                        erase.group(1)], "collector name in delete loop"))
    cur.expect("if(anyDeleted)")
    cur.expect("cout <<")
    for line in _DELETE_ALL_WARNING:
        cur.expect(line)
    cur.expect("std::cout.rdbuf(outbuf);")
    cur.expect("}")


# ---------------------------------------------------------------------------
# _<module>_RTTIRegister
# ---------------------------------------------------------------------------

_RE_RTTI_HEADER = re.compile(r"void _(\w+)_RTTIRegister\(\) \{")
_RE_RTTI_CREATED_GET = re.compile(
    r'const mxArray \*alreadyCreated = mexGetVariablePtr\("global", '
    r'"gtsam_(\w+)_rttiRegistry_created"\);')
_RE_RTTI_INSERT = re.compile(
    r'types\.insert\(std::make_pair\(typeid\((.+)\)\.name\(\), '
    r'"([^"]*)"\)\);')
_RE_RTTI_CREATED_PUT = re.compile(
    r'if\(mexPutVariable\("global", "gtsam_(\w+)_rttiRegistry_created", '
    r'newAlreadyCreated\) != 0\) \{')
_RTTI_ERROR = ('mexErrMsgTxt("gtsam wrap:  Error indexing RTTI types, '
               'inheritance will not work correctly");')
_RTTI_MIDDLE = (
    'mxArray *registry = mexGetVariable("global", "gtsamwrap_rttiRegistry");',
    "if(!registry)",
    "registry = mxCreateStructMatrix(1, 1, 0, NULL);",
    "typedef std::pair<std::string, std::string> StringPair;",
    "for(const StringPair& rtti_matlab: types) {",
    "int fieldId = mxAddField(registry, rtti_matlab.first.c_str());",
    "if(fieldId < 0) {",
    _RTTI_ERROR,
    "}",
    "mxArray *matlabName = mxCreateString(rtti_matlab.second.c_str());",
    "mxSetFieldByNumber(registry, 0, fieldId, matlabName);",
    "}",
    'if(mexPutVariable("global", "gtsamwrap_rttiRegistry", registry) != 0) {',
    _RTTI_ERROR,
    "}",
    "mxDestroyArray(registry);",
    "mxArray *newAlreadyCreated = mxCreateNumericMatrix(0, 0, mxINT8_CLASS, "
    "mxREAL);",
)


def _scan_rtti_register(cur, result):
    names = [cur.match(_RE_RTTI_HEADER,
                       "void _MODULE_RTTIRegister() {").group(1)]
    names.append(cur.match(_RE_RTTI_CREATED_GET,
                           "the alreadyCreated lookup").group(1))
    cur.expect("if(!alreadyCreated) {")
    cur.expect("std::map<std::string, std::string> types;")
    while True:
        found = cur.try_match(_RE_RTTI_INSERT)
        if not found:
            break
        result["rtti"].append({"cpp": found.group(1), "name": found.group(2)})
    for line in _RTTI_MIDDLE:
        cur.expect(line)
    names.append(cur.match(_RE_RTTI_CREATED_PUT,
                           "the rttiRegistry_created mexPutVariable").group(1))
    cur.expect(_RTTI_ERROR)
    cur.expect("}")
    cur.expect("mxDestroyArray(newAlreadyCreated);")
    cur.expect("}")
    cur.expect("}")
    result["rtti_module"] = _same(cur, names, "module name in RTTIRegister")


# ---------------------------------------------------------------------------
# Routines (collector functions)
# ---------------------------------------------------------------------------

_RE_ROUTINE_HEADER = re.compile(
    r"void (\w+)\(int nargout, mxArray \*out\[\], int nargin, "
    r"const mxArray \*in\[\]\)( \{)?")

_MEX_AT_EXIT = "mexAtExit(&_deleteAllObjects);"
_CREATE_PTR = r"mxCreateNumericMatrix\(1, 1, mxUINT32OR64_CLASS, mxREAL\);"

_RE_SHARED_TYPEDEF = re.compile(r"typedef std::shared_ptr<(.+)> Shared;")
_RE_BASE_TYPEDEF = re.compile(r"typedef std::shared_ptr<(.+)> SharedBase;")
_RE_OUT_CREATE = re.compile(r"out\[(\d+)\] = " + _CREATE_PTR)
_RE_BASE_STORE = re.compile(
    r"\*reinterpret_cast<SharedBase\*\*>\(mxGetData\(out\[(\d+)\]\)\) = "
    r"new SharedBase\(\*self\);")
_RE_INSERT = re.compile(r"collector_(\w+)\.insert\(self\);")
_RE_CHECK_ARGUMENTS = re.compile(
    r'checkArguments\("([^"]*)",nargout,nargin(-1)?,(\d+)\);')

_SELF_FROM_IN_SPACE = "Shared *self = *reinterpret_cast<Shared**> (mxGetData(in[0]));"
_SELF_FROM_IN = "Shared *self = *reinterpret_cast<Shared**>(mxGetData(in[0]));"
_AS_VOID = ("std::shared_ptr<void> *asVoid = "
            "*reinterpret_cast<std::shared_ptr<void>**> (mxGetData(in[0]));")
_RE_UPCAST_NEW = re.compile(
    r"Shared \*self = new Shared\(std::static_pointer_cast<(.+)>"
    r"\(\*asVoid\)\);")
_RE_SELF_STORE = re.compile(
    r"\*reinterpret_cast<Shared\*\*> ?\(mxGetData\(out\[(\d+)\]\)\) = self;")
_RE_CTOR_NEW = re.compile(r"Shared \*self = new Shared\(new ([^()]+)\((.*)\)\);")

_RE_ITEM_DECL = re.compile(r"Collector_(\w+)::iterator item;")
_RE_ITEM_FIND = re.compile(r"item = collector_(\w+)\.find\(self\);")
_RE_ITEM_TEST = re.compile(r"if\(item != collector_(\w+)\.end\(\)\) \{")
_RE_ITEM_ERASE = re.compile(r"collector_(\w+)\.erase\(item\);")

_RE_SELF_UNWRAP = re.compile(          # methods and property accessors
    r'auto obj = unwrap_shared_ptr<(.+)>\(in\[0\], "([^"]*)"\);')
_RE_SERIALIZE_UNWRAP = re.compile(     # string_serialize
    r'Shared obj = unwrap_shared_ptr<(.+)>\(in\[0\], "([^"]*)"\);')
_RE_UNWRAP = re.compile(
    r'(.+) (\w+) = (\*?)(unwrap(?:_shared_ptr|_ptr|_enum)?)<(.*)>'
    r'\(in\[(\d+)\](?:, "([^"]*)")?\);')

_RE_PAIR = re.compile(r"auto pairResult = (.+);")
_RE_OUT_ASSIGN = re.compile(r"out\[(\d+)\] = (.+);")
_RE_SHARED_DECL = re.compile(r"std::shared_ptr<(.+?)> shared\((.*)\);")
_RE_SHARED_ASSIGN = re.compile(
    r'out\[(\d+)\] = wrap_shared_ptr\(shared,"([^"]*)"\);')
_RE_STATEMENT = re.compile(r"(.+);")
_RE_DESERIALIZE_NEW = re.compile(r"Shared output\(new ([^()]+)\(\)\);")


def _new_routine(name, body):
    return {
        "name": name, "kind": "",
        "shared_typedef": "", "collector": "",
        "base_typedef": "", "base_out_index": -1,
        "check": {"name": "", "nargin_minus_1": False, "count": -1},
        "self_unwrap": {"cpp": "", "ptr": ""},
        "unwraps": [],
        "new_expr": {"cpp": "", "args": ""},
        "call": "", "pair": False, "outs": [], "void_call": False,
        "self_out_index": -1,
        "body": body,
    }


def _scan_base_pointer(cur, routine):
    """The optional SharedBase trailer of collector / constructor routines."""
    found = cur.try_match(_RE_BASE_TYPEDEF)
    if not found:
        return
    routine["base_typedef"] = found.group(1)
    create = cur.match(_RE_OUT_CREATE, "out[k] = mxCreateNumericMatrix(...);")
    store = cur.match(_RE_BASE_STORE, "the SharedBase pointer store")
    routine["base_out_index"] = int(
        _same(cur, [create.group(1), store.group(1)], "base out index"))


def _scan_check_arguments(cur, routine):
    found = cur.match(_RE_CHECK_ARGUMENTS, "checkArguments(...)")
    routine["check"] = {"name": found.group(1),
                        "nargin_minus_1": found.group(2) is not None,
                        "count": int(found.group(3))}


def _parse_unwrap(found):
    """Turn a match of ``_RE_UNWRAP`` into an ``unwraps`` entry."""
    decl_type, var, star, func, inner, index, ptr_name = found.groups()
    if func == "unwrap_enum":
        mode, cpp_type = "enum", inner  # unwrap_enum<T>: no spaces
    else:
        mode = {"unwrap": "value", "unwrap_ptr": "ptr",
                "unwrap_shared_ptr": "ref" if star else "shared"}[func]
        cpp_type = inner[1:-1]  # unwrap< T >: one space on either side
        if len(inner) < 3 or inner[0] != " " or inner[-1] != " " or \
                cpp_type != cpp_type.strip():
            raise ScanError("expected '< TYPE >' with single spaces")
    if star and mode != "ref":
        raise ScanError("unexpected '*' in front of %s" % func)
    if (mode in ("ref", "shared", "ptr")) != (ptr_name is not None):
        raise ScanError("unexpected presence/absence of the \"ptr_...\" "
                        "argument of %s" % func)
    return {"decl_type": decl_type, "var": var, "mode": mode,
            "type": cpp_type, "index": int(index),
            "ptr_name": ptr_name if ptr_name is not None else ""}


def _scan_unwraps(cur, routine):
    """Zero or more ``TYPE name = unwrap...(in[i]...);`` lines."""
    while True:
        unwrap = cur.try_parse(_RE_UNWRAP, _parse_unwrap)
        if unwrap is None:
            return
        routine["unwraps"].append(unwrap)


def _parse_out_assign(found):
    """Turn a match of ``_RE_OUT_ASSIGN`` into an ``outs`` entry.

    Known right hand sides::

        wrap< T >(EXPR)
        wrap_shared_ptr(EXPR,"MATLAB.CLASS", false)
        wrap_enum(EXPR,"MATLAB.ENUM")
    """
    index, value = int(found.group(1)), found.group(2)
    if value.startswith("wrap< "):
        close = value.find(" >(")
        if close < 0:
            raise ScanError("cannot find ' >(' in %r" % value)
        return {"index": index, "form": "wrap",
                "type": value[len("wrap< "):close],
                "expr": _inner_of_call(value[close + 2:], "")}
    if value.startswith("wrap_shared_ptr("):
        parts = _split_top_level(_inner_of_call(value, "wrap_shared_ptr"))
        if len(parts) < 3 or parts[-1] != " false":
            raise ScanError('expected wrap_shared_ptr(EXPR,"TYPE", false)')
        return {"index": index, "form": "wrap_shared_ptr",
                "type": _string_literal_value(parts[-2]),
                "expr": ",".join(parts[:-2])}
    if value.startswith("wrap_enum("):
        parts = _split_top_level(_inner_of_call(value, "wrap_enum"))
        if len(parts) < 2:
            raise ScanError('expected wrap_enum(EXPR,"TYPE")')
        return {"index": index, "form": "wrap_enum",
                "type": _string_literal_value(parts[-1]),
                "expr": ",".join(parts[:-1])}
    raise ScanError("unknown form of out[] assignment")


def _scan_out_assign(cur, what):
    return cur.parse(_RE_OUT_ASSIGN, what, _parse_out_assign)


def _parse_balanced(group):
    """Parser for ``cur.parse``: checks that one group is bracket-balanced."""
    def parser(found):
        _check_balanced(found.group(group))
        return found
    return parser


def _scan_shared_block(cur):
    """The four line form (the opening ``{`` has been consumed)::

        {
        std::shared_ptr<T> shared(EXPR);
        out[i] = wrap_shared_ptr(shared,"T");
        }
    """
    decl = cur.parse(_RE_SHARED_DECL, "std::shared_ptr<T> shared(EXPR);",
                     _parse_balanced(2))
    assign = cur.match(_RE_SHARED_ASSIGN,
                       'out[i] = wrap_shared_ptr(shared,"T");')
    cur.expect("}")
    cpp_type = _same(cur, [decl.group(1), assign.group(2)],
                     "type in shared block")
    return {"index": int(assign.group(1)), "form": "shared_block",
            "type": cpp_type, "expr": decl.group(2)}


def _scan_call_tail(cur, routine):
    """The statements after the unwraps of a ``call`` routine.

    Exactly one of these shapes::

        CALL;                                   void_call
        out[0] = ...CALL...;                    one out
        { ...shared(CALL); out[0] = ...; }      one out (shared block)
        auto pairResult = CALL;                 pair, followed by the outs
                                                that wrap pairResult.first /
                                                pairResult.second
    """
    if cur.at_end():
        cur.fail("routine has neither a call statement nor an out[] "
                 "assignment")

    def scan_outs():
        while not cur.at_end():
            if cur.accept("{"):
                routine["outs"].append(_scan_shared_block(cur))
            else:
                routine["outs"].append(_scan_out_assign(
                    cur, "an out[] assignment or a shared block"))

    pair = cur.try_parse(_RE_PAIR, _parse_balanced(1))
    if pair is not None:
        routine["pair"] = True
        routine["call"] = pair.group(1)
        scan_outs()
        if not routine["outs"]:
            cur.fail("pairResult is never wrapped")
        return

    if cur.peek() == "{" or _RE_OUT_ASSIGN.fullmatch(cur.peek()):
        scan_outs()
        if len(routine["outs"]) != 1:
            cur.fail("more than one out[] assignment without pairResult")
        try:
            routine["call"] = _strip_make_shared(routine["outs"][0]["expr"])
        except ScanError as error:
            cur.fail(str(error))
        return

    statement = cur.parse(_RE_STATEMENT, "a statement", _parse_balanced(1))
    routine["void_call"] = True
    routine["call"] = statement.group(1)


def _scan_after_mex_at_exit(cur, routine):
    """collector / upcast / constructor: all start with mexAtExit."""
    routine["shared_typedef"] = cur.match(
        _RE_SHARED_TYPEDEF, "typedef std::shared_ptr<T> Shared;").group(1)

    if cur.accept(_AS_VOID):
        routine["kind"] = "upcast"
        create = cur.match(_RE_OUT_CREATE,
                           "out[k] = mxCreateNumericMatrix(...);")
        cast = cur.match(_RE_UPCAST_NEW, "the static_pointer_cast line")
        store = cur.match(_RE_SELF_STORE, "the self pointer store")
        _same(cur, [routine["shared_typedef"], cast.group(1)],
              "type in upcast")
        routine["self_out_index"] = int(
            _same(cur, [create.group(1), store.group(1)], "self out index"))
        return

    if cur.accept(_SELF_FROM_IN_SPACE):
        routine["kind"] = "collector"
        routine["collector"] = cur.match(
            _RE_INSERT, "collector_NAME.insert(self);").group(1)
        _scan_base_pointer(cur, routine)
        return

    routine["kind"] = "constructor"
    _scan_unwraps(cur, routine)
    found = cur.parse(_RE_CTOR_NEW, "an unwrap line or "
                      "'Shared *self = new Shared(new T(ARGS));'",
                      _parse_balanced(2))
    routine["new_expr"] = {"cpp": found.group(1), "args": found.group(2)}
    routine["collector"] = cur.match(
        _RE_INSERT, "collector_NAME.insert(self);").group(1)
    create = cur.match(_RE_OUT_CREATE, "out[k] = mxCreateNumericMatrix(...);")
    store = cur.match(_RE_SELF_STORE, "the self pointer store")
    routine["self_out_index"] = int(
        _same(cur, [create.group(1), store.group(1)], "self out index"))
    _scan_base_pointer(cur, routine)


def _scan_after_shared_typedef(cur, routine):
    """deconstructor / serialize / deserialize: start with the typedef."""
    routine["shared_typedef"] = cur.match(
        _RE_SHARED_TYPEDEF, "typedef std::shared_ptr<T> Shared;").group(1)
    _scan_check_arguments(cur, routine)

    if cur.accept(_SELF_FROM_IN):
        routine["kind"] = "deconstructor"
        names = [cur.match(_RE_ITEM_DECL,
                           "Collector_NAME::iterator item;").group(1)]
        names.append(cur.match(_RE_ITEM_FIND,
                               "item = collector_NAME.find(self);").group(1))
        names.append(cur.match(
            _RE_ITEM_TEST, "if(item != collector_NAME.end()) {").group(1))
        names.append(cur.match(_RE_ITEM_ERASE,
                               "collector_NAME.erase(item);").group(1))
        cur.expect("}")
        cur.expect("delete self;")
        routine["collector"] = _same(cur, names, "collector name")
        return

    found = cur.try_match(_RE_SERIALIZE_UNWRAP)
    if found:
        routine["kind"] = "serialize"
        routine["self_unwrap"] = {"cpp": found.group(1), "ptr": found.group(2)}
        cur.expect("ostringstream out_archive_stream;")
        cur.expect("boost::archive::text_oarchive "
                   "out_archive(out_archive_stream);")
        cur.expect("out_archive << *obj;")
        routine["outs"].append(
            _scan_out_assign(cur, "out[0] = wrap< string >(...);"))
        return

    if cur.accept("string serialized = unwrap< string >(in[0]);"):
        routine["kind"] = "deserialize"
        cur.expect("istringstream in_archive_stream(serialized);")
        cur.expect("boost::archive::text_iarchive "
                   "in_archive(in_archive_stream);")
        found = cur.match(_RE_DESERIALIZE_NEW, "Shared output(new T());")
        cur.expect("in_archive >> *output;")
        _same(cur, [routine["shared_typedef"], found.group(1)],
              "type in deserialize")
        routine["outs"].append(
            _scan_out_assign(cur, "out[0] = wrap_shared_ptr(...);"))
        return

    cur.fail("not a deconstructor, serialize or deserialize body")


def _scan_call_routine(cur, routine):
    routine["kind"] = "call"
    _scan_check_arguments(cur, routine)
    found = cur.try_match(_RE_SELF_UNWRAP)
    if found:
        routine["self_unwrap"] = {"cpp": found.group(1), "ptr": found.group(2)}
    _scan_unwraps(cur, routine)
    _scan_call_tail(cur, routine)


def _scan_routine_body(name, body_lines, first_lineno):
    routine = _new_routine(name, "\n".join(body_lines))
    cur = _Cursor(body_lines, first_lineno)
    try:
        _check_balanced(routine["body"])
    except ScanError as error:
        raise ScanError("routine %s: %s" % (name, error)) from None

    first = cur.peek()
    if first is None:
        cur.fail("routine %s has an empty body" % name)
    if first == _MEX_AT_EXIT:
        cur.take()
        _scan_after_mex_at_exit(cur, routine)
    elif _RE_SHARED_TYPEDEF.fullmatch(first):
        _scan_after_shared_typedef(cur, routine)
    elif _RE_CHECK_ARGUMENTS.fullmatch(first):
        _scan_call_routine(cur, routine)
    else:
        cur.fail("routine %s: unknown first statement" % name)
    if not cur.at_end():
        cur.fail("routine %s (%s): statement not understood" %
                 (name, routine["kind"]))
    return routine


def _scan_routines(cur, result):
    """All ``void NAME(int nargout, ...)`` definitions up to mexFunction."""
    while True:
        line = cur.peek()
        found = None if line is None else _RE_ROUTINE_HEADER.fullmatch(line)
        if not found:
            cur.fail("expected a routine definition or mexFunction")
        if found.group(1) == "mexFunction":
            return
        cur.take()
        if found.group(2) is None:
            cur.expect("{")
        first_lineno, body_lines = cur.take_body()
        result["routines"].append(_scan_routine_body(
            found.group(1), body_lines, first_lineno))


# ---------------------------------------------------------------------------
# mexFunction
# ---------------------------------------------------------------------------

_RE_MEX_REGISTER = re.compile(r"_(\w+)_RTTIRegister\(\);")
_RE_CASE = re.compile(r"case (\d+):")
_RE_CASE_CALL = re.compile(r"(\w+)\(nargout, out, nargin-1, in\+1\);")


def _scan_mex_function(cur, result):
    cur.expect("void mexFunction(int nargout, mxArray *out[], int nargin, "
               "const mxArray *in[])")
    cur.expect("{")
    cur.expect("mstream mout;")
    cur.expect("std::streambuf *outbuf = std::cout.rdbuf(&mout);")
    result["mex_module"] = cur.match(_RE_MEX_REGISTER,
                                     "_MODULE_RTTIRegister();").group(1)
    cur.expect("int id = unwrap<int>(in[0]);")
    cur.expect("try {")
    cur.expect("switch(id) {")
    while True:
        found = cur.try_match(_RE_CASE)
        if not found:
            break
        call = cur.match(_RE_CASE_CALL,
                         "ROUTINE(nargout, out, nargin-1, in+1);")
        cur.expect("break;")
        result["cases"].append({"id": int(found.group(1)),
                                "routine": call.group(1)})
    cur.expect("}")
    cur.expect("} catch(const std::exception& e) {")
    cur.expect('mexErrMsgTxt(("Exception from gtsam:\\n" + '
               'std::string(e.what()) + "\\n").c_str());')
    cur.expect("}")
    cur.expect("std::cout.rdbuf(outbuf);")
    cur.expect("}")
    if not cur.at_end():
        cur.fail("text after the end of mexFunction")


# ---------------------------------------------------------------------------
# Entry point
# ---------------------------------------------------------------------------


def scan_cpp(text):
    """Scan one generated ``*_wrapper.cpp`` file; see the module docstring."""
    result = {"includes": [], "typedefs": [], "export_guids": [],
              "collectors": [], "delete_loops": [], "rtti": [],
              "rtti_module": "", "routines": [], "cases": [],
              "mex_module": ""}
    cur = _Cursor(text.split("\n"))
    _scan_preamble(cur, result)
    _scan_delete_all_objects(cur, result)
    _scan_rtti_register(cur, result)
    _scan_routines(cur, result)
    _scan_mex_function(cur, result)
    return result
