"""Replay of one derivation into the implementation, stage by stage.  Each function is a pure worker
(picklable arguments and results) so that it can run in the process pool."""
import traceback

import layout
import proj
from proj import parser

REJECT_EXC = ("ParseException", "ParseBaseException", "ValueError", "AssertionError", "ParseSyntaxException")


def parse_text(text):
    """-> ('ok', module) | ('reject', exc name, message) | ('crash', exc name, traceback)."""
    try:
        return ("ok", parser.Module.parseString(text))
    except Exception as e:  # noqa: BLE001 - classification happens below
        name = type(e).__name__
        if name in REJECT_EXC:
            return ("reject", name, str(e)[:300])
        return ("crash", name, traceback.format_exc()[-1500:])


def c01_case(case):
    """Replay one derivation: text -> Module.parseString -> projection; compare with the tree the spec emitted.
    Returns a verdict dict; 'clause' names the first failing clause of C01 ('' = all hold)."""
    toks = case["toks"]
    text = layout.render(toks, case.get("gaps"))
    r = parse_text(text)
    v = {"origin": case.get("origin", ""), "clause": "", "detail": "", "ntoks": len(toks), "text": text}
    if r[0] != "ok":
        v["clause"] = "wellformed-input-rejected"
        v["detail"] = "%s: %s" % (r[1], r[2])
        return v
    mod = r[1]
    try:
        obs = proj.proj_tree(mod, "params")
        obs2 = proj.proj_tree(mod, "typename")
        links = proj.parent_links(mod)
    except proj.ProjectionError as e:
        v["clause"] = "tree-shape-unknown"
        v["detail"] = str(e)
        return v
    d = proj.diff(case["tree"], obs)
    if d:
        v["clause"] = "tree-differs"
        v["detail"] = d
        v["observed"] = obs
        return v
    d = proj.diff(proj.typename_view_of(case["tree"]), obs2)
    if d:
        v["clause"] = "typename-view-differs"
        v["detail"] = d
        return v
    for kind, name, cont, chain in links:
        if cont != chain:
            v["clause"] = "scope-link-differs"
            v["detail"] = "%s %s: contained in %s but its parent chain says %s" % (kind, name, cont, chain)
            return v
    return v
