"""Token sequence -> interface text.  The only knowledge here is lexical: which two adjacent tokens would
fuse into one C++ token if nothing separated them.  The token strings themselves come from the specification."""
import random
import re

_WORDCH = re.compile(r"[A-Za-z0-9_]")


def needs_space(a, b):
    """True iff writing a and b with nothing in between changes the C++ tokenisation."""
    if not a or not b:
        return False
    if _WORDCH.match(a[-1]) and _WORDCH.match(b[0]):
        return True
    # an opaque default value next to an identifier character / quote
    return False


def canonical_gaps(toks):
    """One blank between tokens, nothing around '::' (gap list has len(toks)+1 entries: before, between, after)."""
    if not toks:
        return [""]
    gaps = [""]
    for i in range(len(toks) - 1):
        a, b = toks[i], toks[i + 1]
        if a == "::" or b == "::":
            gaps.append("")
        else:
            gaps.append(" ")
    gaps.append("\n" if toks else "")
    return gaps


def render(toks, gaps=None):
    if gaps is None:
        gaps = canonical_gaps(toks)
    assert len(gaps) == len(toks) + 1
    out = [gaps[0]]
    for i, t in enumerate(toks):
        out.append(t)
        g = gaps[i + 1]
        if g.startswith("/") and t.endswith("/"):
            g = " " + g     # '/' followed by a comment opener would lex as '//' (maximal munch): keep them apart
        if i + 1 < len(toks) and g == "" and needs_space(t, toks[i + 1]):
            raise ValueError("layout would fuse %r and %r" % (t, toks[i + 1]))
        out.append(g)
    return "".join(out)


# trivia a re-layout may place in a gap (C12): whitespace, newlines, C and C++ comments with hostile content
TRIVIA = [" ", "\n", "\t\n  ", "/**/", "/* } ; \" class */", "// ; { \" template\n", "/* // */", "//\n",
          " /* a */ /* b */ ", "\r\n", "/* \n * multi\n * line */", "// const T& x = 1;\n"]


def is_separating(trivia):
    return trivia != ""


def gap_tags(toks):
    """Lexical classification of the gaps between tokens (index i = gap after toks[i-1], 1..len-1).
    Used only to name classes of findings precisely; never to exclude a gap from checking."""
    tags = {}
    for i in range(len(toks) - 1):
        a, b = toks[i], toks[i + 1]
        if (a, b) in (("unsigned", "char"), ("enum", "class"), ("enum", "struct")):
            tags[i + 1] = "inside-multiword-keyword"
        elif a == "std" and b == "::" and i + 2 < len(toks) and toks[i + 2] == "pair":
            tags[i + 1] = "std::pair"
        elif a == "::" and b == "pair" and i >= 1 and toks[i - 1] == "std":
            tags[i + 1] = "std::pair"
        elif a == "operator":
            tags[i + 1] = "after-operator-keyword"
        elif i >= 1 and toks[i - 1] == "=" and a != "{":
            tags[i + 1] = "after-default-value"
    return tags


def random_gaps(toks, rng, pool=None, density=0.3):
    pool = pool or TRIVIA
    gaps = canonical_gaps(toks)
    for i in range(len(gaps)):
        if rng.random() < density:
            gaps[i] = rng.choice(pool)
    return gaps
