"""Scanner of the generated pybind11 translation unit: text -> sequence of registration events.
Structure only.  The module template used by the checks separates the sections with markers, so no guessing about
where the generated parts start (the template is a user-supplied input of the generator)."""
import re

MARK_TPL = ("@@INCLUDES<<{includes}>>@@\n@@EXPORT<<{boost_class_export}>>@@\n@@SUBMODS<<{submodules}>>@@\n"
            "@@DEF<<{module_def}>>@@\n@@NAME<<{module_name}>>@@\n@@INIT<<{submodules_init}>>@@\n"
            "@@BODY<<{wrapped_namespace}>>@@\n")


class ScanError(Exception):
    """The text does not have the shape the generator is known to emit (machinery failure unless caused by an
    unbalanced / truncated construct, which the caller confirms independently)."""


def sections(text):
    out = {}
    for name in ("INCLUDES", "EXPORT", "SUBMODS", "DEF", "NAME", "INIT", "BODY"):
        m = re.search(r"@@%s<<(.*?)>>@@\n" % name, text, re.S)
        if not m:
            raise ScanError("section %s not found" % name)
        out[name] = m.group(1)
    return out


def _skip_literal(s, i):
    q = s[i]
    j = i + 1
    while j < len(s):
        if s[j] == "\\":
            j += 2
            continue
        if s[j] == q:
            return j + 1
        j += 1
    raise ScanError("unterminated literal at %d: %r" % (i, s[i:i + 40]))


def balanced(s):
    """independent balance count of () {} [] outside literals and comments -> True/False"""
    st = []
    i = 0
    pairs = {")": "(", "}": "{", "]": "["}
    while i < len(s):
        c = s[i]
        if c in "\"'":
            try:
                i = _skip_literal(s, i)
            except ScanError:
                return False
            continue
        if s.startswith("/*", i):
            j = s.find("*/", i + 2)
            if j < 0:
                return False
            i = j + 2
            continue
        if c in "({[":
            st.append(c)
        elif c in ")}]":
            if not st or st[-1] != pairs[c]:
                return False
            st.pop()
        i += 1
    return not st


def split_top(s, sep=",", angle=False):
    """split at separators that are outside (), {}, [], literals, comments (and <> if angle)"""
    out, depth, i, start = [], 0, 0, 0
    adepth = 0
    while i < len(s):
        c = s[i]
        if c in "\"'":
            i = _skip_literal(s, i)
            continue
        if s.startswith("/*", i):
            j = s.find("*/", i + 2)
            if j < 0:
                raise ScanError("unterminated comment")
            i = j + 2
            continue
        if c in "({[":
            depth += 1
        elif c in ")}]":
            depth -= 1
            if depth < 0:
                raise ScanError("unbalanced closer in %r" % s[:80])
        elif angle and c == "<":
            adepth += 1
        elif angle and c == ">" and adepth > 0:
            adepth -= 1
        elif c == sep and depth == 0 and adepth == 0:
            out.append(s[start:i])
            start = i + 1
        i += 1
    if depth != 0:
        raise ScanError("unbalanced construct in %r" % s[:80])
    out.append(s[start:])
    return out


def statements(body):
    return [x.strip() for x in split_top(body, ";") if x.strip()]


def _match_paren(s, i):
    """s[i] == '(' -> index just after the matching ')'"""
    assert s[i] == "("
    depth = 0
    j = i
    while j < len(s):
        c = s[j]
        if c in "\"'":
            j = _skip_literal(s, j)
            continue
        if c in "({[":
            depth += 1
        elif c in ")}]":
            depth -= 1
            if depth == 0:
                return j + 1
        j += 1
    raise ScanError("no matching parenthesis in %r" % s[i:i + 80])


def _chain(s):
    """'.def(...)\n .def_static(...)' -> [(method, inner text)]"""
    out = []
    i = 0
    while i < len(s):
        if s[i].isspace():
            i += 1
            continue
        m = re.match(r"\.(\w+)\s*\(", s[i:])
        if not m:
            raise ScanError("unexpected text in call chain: %r" % s[i:i + 60])
        p = i + m.end() - 1
        e = _match_paren(s, p)
        out.append((m.group(1), s[p + 1:e - 1]))
        i = e
    return out


def _strlit(x):
    x = x.strip()
    if len(x) < 2 or x[0] != '"' or x[-1] != '"':
        raise ScanError("not a string literal: %r" % x[:60])
    return x[1:-1]


def _pyargs(pieces, has_doc):
    """pieces after the callable: py::arg("n") [= default] ... ["doc"] -> (args, doc literal or None)"""
    args = []
    doc = None
    if has_doc and pieces:
        last = pieces[-1].strip()
        if last.startswith('"') and not pieces[-1].strip().startswith("py::arg("):
            doc = last
            pieces = pieces[:-1]
    for p in pieces:
        ps = p.strip()
        m = re.match(r'py::arg\("((?:[^"\\]|\\.)*)"\)\s*(=\s*(.*))?$', ps, re.S)
        if m:
            args.append({"name": m.group(1), "hasdef": m.group(2) is not None,
                         "def": (m.group(3) or "").strip() if m.group(2) is not None else ""})
        else:
            if not args or not args[-1]["hasdef"]:
                raise ScanError("unexpected argument piece %r" % ps[:60])
            args[-1]["def"] += "," + p      # a comma inside a default value (template argument list)
    return args, doc


def _params(s):
    """'A a, const B<C, D>& b' -> [{type, name}]"""
    s = s.strip()
    if not s:
        return []
    out = []
    for p in split_top(s, ",", angle=True):
        p = p.strip()
        m = re.match(r"^(.*\S)\s+(\w+)$", p, re.S)
        if not m:
            m2 = re.match(r"^(.*[\*&>])(\w+)$", p, re.S)
            if not m2:
                raise ScanError("cannot split parameter %r" % p)
            out.append({"type": m2.group(1).strip(), "name": m2.group(2)})
        else:
            out.append({"type": m.group(1).strip(), "name": m.group(2)})
    return out


def _lambda(s):
    """'[](params){body}' -> (params text, body text)"""
    s = s.strip()
    if not s.startswith("[]"):
        raise ScanError("not a lambda: %r" % s[:60])
    i = s.index("(")
    e = _match_paren(s, i)
    params = s[i + 1:e - 1]
    rest = s[e:].strip()
    if not (rest.startswith("{") and rest.endswith("}")):
        raise ScanError("lambda body not found: %r" % rest[:60])
    return params, rest[1:-1].strip()


def _call(body):
    """'[return] caller callee(a, b);' -> (has_return, callee expression, [args])"""
    b = body.strip()
    if b.endswith(";"):
        b = b[:-1].strip()
    ret = False
    if b.startswith("return ") or b.startswith("return\t"):
        ret = True
        b = b[6:].strip()
    i = b.find("(")
    # the callee may contain template arguments with parentheses only in pathological cases; take the last
    # top-level call
    if i < 0 or not b.endswith(")"):
        raise ScanError("not a call: %r" % b[:80])
    # find the '(' that matches the final ')'
    depth = 0
    j = len(b) - 1
    while j >= 0:
        c = b[j]
        if c == ")":
            depth += 1
        elif c == "(":
            depth -= 1
            if depth == 0:
                break
        j -= 1
    callee = b[:j].strip()
    args = [x.strip() for x in split_top(b[j + 1:-1], ",")] if b[j + 1:-1].strip() else []
    return ret, callee, args


def _def_event(cls, kind, inner, has_doc):
    pieces = split_top(inner, ",")
    first = pieces[0].strip()
    if first.startswith("py::init<"):
        m = re.match(r"py::init<(.*)>\(\)$", first, re.S)
        if not m:
            # the type list may contain commas: re-join until the piece ends with '>()'
            k = 1
            while k < len(pieces) and not first.endswith(">()"):
                first = first + "," + pieces[k]
                k += 1
            pieces = [first] + pieces[k:]
            m = re.match(r"py::init<(.*)>\(\)$", first.strip(), re.S)
            if not m:
                raise ScanError("bad py::init: %r" % first[:80])
        types = [t.strip() for t in split_top(m.group(1), ",", angle=True)] if m.group(1).strip() else []
        args, doc = _pyargs(pieces[1:], False)
        return {"ev": "init", "cls": cls, "types": types, "args": args}
    if first.startswith("py::pickle("):
        return {"ev": "pickle", "cls": cls, "text": inner.strip()}
    if first.startswith("py::self") or re.match(r"^[-+]py::self$", first):
        m = re.match(r"^py::self\s+(\S+)\s+py::self$", first)
        if m:
            return {"ev": "operator", "cls": cls, "form": "binary", "op": m.group(1)}
        m = re.match(r"^([-+])py::self$", first)
        if m:
            return {"ev": "operator", "cls": cls, "form": "unary", "op": m.group(1)}
        raise ScanError("unknown operator form %r" % first)
    name = _strlit(first)
    if kind in ("def_readwrite", "def_readonly"):
        return {"ev": "prop", "cls": cls, "name": name, "readonly": kind == "def_readonly",
                "target": ",".join(pieces[1:]).strip()}
    second = pieces[1].strip() if len(pieces) > 1 else ""
    if second.startswith("&"):
        return {"ev": "operator", "cls": cls, "form": {"__getitem__": "getitem", "__call__": "call"}.get(name, name),
                "op": ",".join(pieces[1:]).strip()}
    # the lambda may contain top-level commas (it does: parameters) - re-join pieces until balanced lambda
    k = 2
    lam = pieces[1]
    while not (lam.strip().startswith("[]") and lam.strip().endswith("}") and balanced(lam)) and k < len(pieces):
        lam += "," + pieces[k]
        k += 1
    params, body = _lambda(lam)
    args, doc = _pyargs(pieces[k:], has_doc)
    ev = {"ev": "def", "cls": cls, "static": kind == "def_static", "pyname": name, "params": _params(params),
          "body": body, "args": args, "doc": doc if doc is not None else "", "hasdoc": doc is not None}
    return ev


def scan_body(body, has_doc=False):
    """wrapped_namespace text -> list of events in output order"""
    events = []
    pending_instance = None     # class declared as a named instance; its chain is the next statement
    for st in statements(body):
        if pending_instance is not None and re.match(r"^%s\s*(\.|$)" % re.escape(pending_instance["instvar"]), st):
            rest = st[len(pending_instance["instvar"]):]
            for kind, inner in _chain(rest):
                events.append(_def_event(pending_instance["cpp"], kind, inner, has_doc))
            pending_instance = None
            continue
        pending_instance = None
        m = re.match(r'^pybind11::module\s+(\w+)\s*=\s*(\w+)\.def_submodule\("([^"]*)",\s*"([^"]*)"\)$', st)
        if m:
            events.append({"ev": "submodule", "var": m.group(1), "parent": m.group(2), "name": m.group(3),
                           "doc": m.group(4)})
            continue
        if st.startswith("py::class_<"):
            # py::class_<A, [B, ]std::shared_ptr<A>>(mod, "Name") chain   |   py::class_<...> inst(mod, "Name")
            i = len("py::class_")
            depth = 0
            j = i
            while j < len(st):
                if st[j] == "<":
                    depth += 1
                elif st[j] == ">":
                    depth -= 1
                    if depth == 0:
                        break
                j += 1
            targs = [x.strip() for x in split_top(st[i + 1:j], ",", angle=True)]
            rest = st[j + 1:]
            m = re.match(r"^\s*(\w*)\s*\(", rest)
            if not m:
                raise ScanError("class statement without constructor call: %r" % st[:100])
            instvar = m.group(1)
            p = rest.index("(")
            e = _match_paren(rest, p)
            cargs = [x.strip() for x in split_top(rest[p + 1:e - 1], ",")]
            ev = {"ev": "class", "cpp": targs[0], "targs": targs, "module": cargs[0], "name": _strlit(cargs[1]),
                  "instvar": instvar}
            events.append(ev)
            if instvar:
                if rest[e:].strip():
                    raise ScanError("text after instance declaration: %r" % rest[e:][:60])
                pending_instance = ev
            else:
                for kind, inner in _chain(rest[e:]):
                    events.append(_def_event(targs[0], kind, inner, has_doc))
            continue
        if st.startswith("py::enum_<"):
            m = re.match(r'^py::enum_<(.*?)>\((\w+),\s*"([^"]*)",\s*py::arithmetic\(\)\)(.*)$', st, re.S)
            if not m:
                raise ScanError("bad enum statement %r" % st[:100])
            vals = []
            for kind, inner in _chain(m.group(4)):
                if kind != "value":
                    raise ScanError("enum chain with %s" % kind)
                a = split_top(inner, ",")
                vals.append({"name": _strlit(a[0]), "cpp": ",".join(a[1:]).strip()})
            events.append({"ev": "enum", "cpp": m.group(1), "module": m.group(2), "name": m.group(3), "values": vals})
            continue
        m = re.match(r'^(\w+)\.attr\("([^"]*)"\)\s*=\s*(.*)$', st, re.S)
        if m:
            events.append({"ev": "attr", "module": m.group(1), "name": m.group(2), "value": m.group(3).strip()})
            continue
        m = re.match(r"^(\w+)\.(def|def_static)\s*\(", st)
        if m:
            p = st.index("(")
            e = _match_paren(st, p)
            if st[e:].strip():
                raise ScanError("text after function registration %r" % st[e:][:60])
            ev = _def_event("", m.group(2), st[p + 1:e - 1], False)
            ev["ev"] = "func"
            ev["module"] = m.group(1)
            events.append(ev)
            continue
        raise ScanError("unknown statement %r" % st[:120])
    # decode lambda bodies
    for ev in events:
        if ev["ev"] in ("def", "func"):
            b = ev["body"]
            ev["redirect"] = False
            if b.startswith("py::scoped_ostream_redirect output;"):
                ev["redirect"] = True
                b = b[len("py::scoped_ostream_redirect output;"):].strip()
            ev["rawbody"] = ev.pop("body")
            try:
                ret, callee, cargs = _call(b)
                ev.update({"ret": ret, "callee": callee, "callargs": cargs, "simple": True})
            except ScanError:
                ev.update({"ret": False, "callee": "", "callargs": [], "simple": False})
    return events


def scan(text, has_doc=False):
    sec = sections(text)
    return {
        "includes": [l for l in sec["INCLUDES"].split("\n") if l.strip()],
        "export": sec["EXPORT"],
        "submods": [l for l in sec["SUBMODS"].split("\n") if l.strip()],
        "module_def": sec["DEF"],
        "module_name": sec["NAME"],
        "init": [l for l in sec["INIT"].split("\n") if l.strip()],
        "events": scan_body(sec["BODY"], has_doc),
        "balanced": balanced(sec["BODY"]),
    }
