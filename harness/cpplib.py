"""An EXECUTABLE conforming C++ library for an interface of the 'call' profile of spec/IfaceSim.tla: every entity the
interface declares is defined, logs "<qualified entity>(<argument values>)" and returns a default value of its return
type.  Rendered from the abstract interface tree the specification emitted (like harness/cppdecl.py, whose type
spelling it reuses).  Objects carry an id: constructors with declared arguments number them 1, 2, ... in call order
(copies keep the id), library-made objects have id 0."""
import cppdecl

PRELUDE = r'''
#pragma once
#include <map>
#include <memory>
#include <sstream>
#include <string>
#include <type_traits>
#include <utility>
#include <vector>
namespace verif {
struct Tag {};
inline std::vector<std::string> &calls() { static std::vector<std::string> l; return l; }
inline int &counter() { static int c = 0; return c; }
inline std::map<std::string, int> &live() { static std::map<std::string, int> m; return m; }
struct Counted { std::string cls; Counted(const std::string &c) : cls(c) { ++live()[cls]; } Counted(const Counted &o) : cls(o.cls) { ++live()[cls]; }
                 Counted &operator=(const Counted &) { return *this; } ~Counted() { --live()[cls]; } };
template <class T> struct TN { static std::string s() { return "?"; } };
}
#define VERIF_TN(T, S) namespace verif { template <> struct TN< T > { static std::string s() { return S; } }; }
VERIF_TN(void, "void") VERIF_TN(bool, "bool") VERIF_TN(char, "char") VERIF_TN(unsigned char, "unsigned char") VERIF_TN(int, "int")
VERIF_TN(size_t, "size_t") VERIF_TN(double, "double") VERIF_TN(float, "float") VERIF_TN(std::string, "string")
namespace verif {
template <class T, class = void> struct HasId : std::false_type {};
template <class T> struct HasId<T, std::void_t<decltype(std::declval<const T &>().verif_id)>> : std::true_type {};
template <class T> std::string show(const T &v);
template <class T> std::string show(T *v) { return v ? show(*v) : std::string("null"); }
template <class T> std::string show(const std::shared_ptr<T> &v) { return v ? show(*v) : std::string("null"); }
inline std::string show(const std::string &v) { return v; }
template <class T> std::string show(const T &v) {
  std::ostringstream o;
  if constexpr (std::is_same_v<T, bool>) o << (v ? 1 : 0);
  else if constexpr (std::is_same_v<T, char> || std::is_same_v<T, unsigned char>) o << (int)v;
  else if constexpr (std::is_enum_v<T>) o << "enum" << (int)v;
  else if constexpr (std::is_arithmetic_v<T>) o << v;
  else if constexpr (HasId<T>::value) o << "obj" << v.verif_id;
  else o << "?";
  return o.str();
}
inline void call(const std::string &entity, std::initializer_list<std::string> args) {
  std::string s = entity + "("; bool first = true;
  for (auto &a : args) { if (!first) s += ","; s += a; first = false; }
  calls().push_back(s + ")");
}
template <class T, class = void> struct Make { static T get() { if constexpr (std::is_constructible_v<T, Tag>) return T(Tag{}); else return T{}; } };
template <> struct Make<void> { static void get() {} };
template <class T> struct Make<T &> { static T &get() { static std::remove_const_t<T> *u = new std::remove_const_t<T>(Make<std::remove_const_t<T>>::get()); return *u; } };
template <class T> struct Make<T *> { static T *get() { return new std::remove_const_t<T>(Make<std::remove_const_t<T>>::get()); } };
template <class T> struct Make<std::shared_ptr<T>> { static std::shared_ptr<T> get() { return std::make_shared<std::remove_const_t<T>>(Make<std::remove_const_t<T>>::get()); } };
template <class T> struct Make<const T, std::enable_if_t<!std::is_reference_v<T> && !std::is_pointer_v<T>>> { static T get() { return Make<T>::get(); } };
template <class A, class B> struct Make<std::pair<A, B>> { static std::pair<A, B> get() { return std::pair<A, B>(Make<A>::get(), Make<B>::get()); } };
}  // namespace verif
#define VERIF_NESTED typedef int Value; typedef int Type; typedef int shared_ptr; typedef int Sub; int verif_id = 0;
struct Key { VERIF_NESTED Key() {} Key(verif::Tag) {} bool operator==(const Key &) const { return true; } };
struct Vector { VERIF_NESTED Vector() {} Vector(verif::Tag) {} };
namespace gtsam {
struct Pose3 { VERIF_NESTED Pose3() {} Pose3(verif::Tag) {} };
struct Point3 { VERIF_NESTED Point3() {} Point3(verif::Tag) {} };
struct RedirectCout { std::string str() const { return "printed"; } };
template <class T> std::string serialize(const T &) { return ""; }
template <class T> void deserialize(const std::string &, T &) {}
}
namespace Tools { struct Index { VERIF_NESTED Index() {} Index(verif::Tag) {} }; }
namespace POSEs { struct Frame { VERIF_NESTED Frame() {} Frame(verif::Tag) {} }; }
namespace Values { struct Entry { VERIF_NESTED Entry() {} Entry(verif::Tag) {} }; }
namespace Util { struct Id { VERIF_NESTED Id() {} Id(verif::Tag) {} }; }
namespace lib {
namespace geo { struct Shape { VERIF_NESTED Shape() {} Shape(verif::Tag) {} virtual ~Shape() {} }; }
template <class T> struct Box { VERIF_NESTED Box() {} Box(verif::Tag) {} virtual ~Box() {} };
template <class T> struct Seq { VERIF_NESTED Seq() {} Seq(verif::Tag) {} };
}
VERIF_TN(::Key, "Key") VERIF_TN(::Vector, "Vector") VERIF_TN(::gtsam::Pose3, "gtsam::Pose3") VERIF_TN(::gtsam::Point3, "gtsam::Point3")
VERIF_TN(::lib::geo::Shape, "lib::geo::Shape") VERIF_TN(::Tools::Index, "Tools::Index") VERIF_TN(::POSEs::Frame, "POSEs::Frame")
VERIF_TN(::Values::Entry, "Values::Entry") VERIF_TN(::Util::Id, "Util::Id")
namespace verif {
template <class T> struct TN< ::lib::Box<T> > { static std::string s() { return "lib::Box<" + TN<T>::s() + ">"; } };
template <class T> struct TN< ::lib::Seq<T> > { static std::string s() { return "lib::Seq<" + TN<T>::s() + ">"; } };
}
'''


def _tn_expr(qual, params):
    """C++ expression for the logged name of a class: literal for plain classes, built from TN<> for templates"""
    if not params:
        return 'std::string("%s")' % qual
    return 'std::string("%s<") + %s + ">"' % (qual, ' + "," + '.join("verif::TN<%s>::s()" % p for p in params))


def _fn_name_expr(owner_expr, name, tparams):
    e = (owner_expr + ' + ' if owner_expr else '') + 'std::string("%s%s")' % ("::" if owner_expr else "", name)
    if tparams:
        e += ' + "<" + ' + ' + "," + '.join("verif::TN<%s>::s()" % p for p in tparams) + ' + ">"'
    return e


def _body(entity_expr, args, ret):
    shows = ", ".join("verif::show(%s)" % a["name"] for a in args)
    r = "" if ret is None else " return verif::Make< %s >::get();" % ret
    return "{ verif::call(%s, {%s});%s }" % (entity_expr, shows, r)


def forward(items, ns, out_fwd, out_tn):
    for d in items:
        if d["k"] == "namespace":
            out_fwd.append("namespace %s {" % d["name"])
            forward(d["items"], ns + [d["name"]], out_fwd, out_tn)
            out_fwd.append("}")
        elif d["k"] == "class":
            qual = "::".join(ns + [d["name"]])
            params = [p["name"] for p in d["tmpl"]]
            out_fwd.append("%sclass %s;" % (cppdecl.tmpl_head(d["tmpl"]), d["name"]))
            if params:
                out_tn.append("namespace verif { template <%s> struct TN< ::%s<%s> > { static std::string s() { return %s; } }; }"
                              % (", ".join("class " + p for p in params), qual, ", ".join(params), _tn_expr(qual, params)))
            else:
                out_tn.append('VERIF_TN(::%s, "%s")' % (qual, qual))
        elif d["k"] == "enum":
            pass


def class_def(c, ns, indent):
    params = [p["name"] for p in c["tmpl"]]
    this = c["name"] + ("<" + ", ".join(params) + ">" if params else "")
    qual = "::".join(ns + [c["name"]])
    cname = _tn_expr(qual, params)
    pad = "  " * indent
    out = []
    base = ""
    binit = ""
    if c["hasbase"]:
        cppdecl._PARAMS[:] = list(params)
        b = cppdecl.cpp_type(c["base"], this)
        base = " : public " + b
        binit = " : %s(verif::Tag{})" % b
    out.append("%s%sclass %s%s {" % (pad, cppdecl.tmpl_head(c["tmpl"]), c["name"], base))
    out.append(pad + " public:")
    out.append(pad + "  typedef int Value; typedef int Type; typedef int shared_ptr; typedef int Sub;")
    if not c["hasbase"]:
        out.append(pad + "  int verif_id = 0;")
    out.append("%s  verif::Counted verif_live{%s};" % (pad, cname))
    out.append("%s  %s(verif::Tag)%s {}" % (pad, c["name"], binit))
    if c["virtual"] or True:
        out.append(pad + "  virtual ~%s() {}" % c["name"])
    for e in c["enums"]:
        out.append(pad + "  enum class %s { %s };" % (e["name"], ", ".join(e["enumerators"])))
    for m in c["ctors"]:
        ps = params + [p["name"] for p in m["tmpl"]]
        shows = ", ".join("verif::show(%s)" % a["name"] for a in m["args"])
        out.append("%s  %s%s(%s)%s { this->verif_id = ++verif::counter(); verif::call(%s + \"::<init>\", {%s}); }"
                   % (pad, cppdecl.tmpl_head(m["tmpl"]), c["name"], cppdecl.args_decl(m["args"], this, ps), binit, cname, shows))
    for m in c["methods"]:
        ps = params + [p["name"] for p in m["tmpl"]]
        ret = cppdecl.ret_decl(m["ret"], this, ps)
        ent = _fn_name_expr(cname, m["name"], [p["name"] for p in m["tmpl"]])
        selfshow = [{"name": "*this"}]
        out.append("%s  %s%s %s(%s)%s %s" % (pad, cppdecl.tmpl_head(m["tmpl"]), ret, m["name"], cppdecl.args_decl(m["args"], this, ps),
                                              " const" if m["const"] else "", _body(ent, selfshow + m["args"], None if ret == "void" else ret)))
    for m in c["statics"]:
        ps = params + [p["name"] for p in m["tmpl"]]
        ret = cppdecl.ret_decl(m["ret"], this, ps)
        ent = _fn_name_expr(cname, m["name"], [p["name"] for p in m["tmpl"]])
        out.append("%s  %sstatic %s %s(%s) %s" % (pad, cppdecl.tmpl_head(m["tmpl"]), ret, m["name"], cppdecl.args_decl(m["args"], this, ps),
                                                  _body(ent, m["args"], None if ret == "void" else ret)))
    for p in c["props"]:
        t = cppdecl.ctype(p["t"], this, params)
        init = "nullptr" if p["t"]["q"] in ("*", "@") else "verif::Make< %s >::get()" % t      # (no object graphs)
        out.append("%s  %s %s = %s;" % (pad, t, p["name"], init))
    def selfed(t):      # the class's own (unqualified) name inside the class means the class at hand
        t = dict(t, args=[selfed(a) for a in t["args"]])
        return dict(t, qn=["This"]) if t["qn"] == [c["name"]] else t
    for o in c["ops"]:
        o = dict(o, ret=dict(o["ret"], t1=selfed(o["ret"]["t1"]), t2=selfed(o["ret"]["t2"])),
                 args=[dict(a, t=selfed(a["t"])) for a in o["args"]])
        ret = cppdecl.ret_decl(o["ret"], this, params)
        ent = cname + ' + "::operator%s"' % o["op"]
        out.append("%s  %s operator%s(%s) const %s" % (pad, ret, o["op"], cppdecl.args_decl(o["args"], this, params),
                                                      _body(ent, [{"name": "*this"}] + o["args"], None if ret == "void" else ret)))
    if c["dunders"]:
        out.append(pad + "  const int* begin() const { static int a[2] = {1, 2}; return a; } const int* end() const { return begin() + 2; }")
        out.append(pad + "  size_t size() const { return 2; }")
    out.append(pad + "};")
    return out


def defs(items, ns, indent=0):
    pad = "  " * indent
    out = []
    for d in items:
        k = d["k"]
        if k == "namespace":
            out.append("%snamespace %s {" % (pad, d["name"]))
            out += defs(d["items"], ns + [d["name"]], indent + 1)
            out.append(pad + "}")
        elif k == "class":
            out += class_def(d, ns, indent)
        elif k == "function":
            ps = [p["name"] for p in d["tmpl"]]
            ret = cppdecl.ret_decl(d["ret"], "", ps)
            ent = _fn_name_expr("", "::".join(ns + [d["name"]]), ps)
            out.append("%s%sinline %s %s(%s) %s" % (pad, cppdecl.tmpl_head(d["tmpl"]), ret, d["name"], cppdecl.args_decl(d["args"], "", ps),
                                                    _body(ent, d["args"], None if ret == "void" else ret)))
        elif k == "enum":
            out.append("%senum class %s { %s };" % (pad, d["name"], ", ".join(d["enumerators"])))
        elif k == "variable":
            cppdecl._PARAMS[:] = []
            t = cppdecl.cpp_type(d["t"], "")
            out.append("%sinline %s %s = %s;" % (pad, t, d["name"], d["def"] if d["hasdef"] else "verif::Make< %s >::get()" % t))
    return out


MEX_SHIM = r'''
// what harness/mexmock/session_driver.cpp reads
static std::vector<std::string> &calllog = verif::calls();
static std::map<std::string, int> &livecount = verif::live();
'''


def header(tree, mex=False):
    """mex=True: for the MATLAB gateway build - gtsam::Point3 is the MEX mock's stand-in (matlab.h includes it)"""
    if mex:
        pre = PRELUDE.replace("struct Point3 { VERIF_NESTED Point3() {} Point3(verif::Tag) {} };", "") \
                     .replace("struct Vector { VERIF_NESTED Vector() {} Vector(verif::Tag) {} };", "") \
                     .replace('VERIF_TN(::Vector, "Vector")', "") \
                     .replace('VERIF_TN(::gtsam::Point3, "gtsam::Point3")', "") \
                     .replace("#pragma once", "#pragma once\n#include <gtsam/geometry/Point3.h>")
        fwd, tn = [], []
        forward(tree, [], fwd, tn)
        return pre + MEX_SHIM + "\n".join(fwd) + "\n" + "\n".join(tn) + "\n" + "\n".join(defs(tree, [])) + "\n"
    fwd, tn = [], []
    forward(tree, [], fwd, tn)
    return PRELUDE + "\n".join(fwd) + "\n" + "\n".join(tn) + "\n" + "\n".join(defs(tree, [])) + "\n"
