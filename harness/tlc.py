"""Run TLC and parse what it says.  Nothing here knows about wrap."""
import json
import os
import re
import shutil
import subprocess
import tempfile
import time

SPEC_DIR = os.path.join(os.path.dirname(os.path.dirname(os.path.abspath(__file__))), "spec")
JAR = "/opt/veriftools/tla/tla2tools.jar"
DEPS = "/opt/veriftools/tla/CommunityModules-deps.jar"


class TLCError(Exception):
    """TLC itself failed (parse error, evaluation error, invariant of the *spec* violated, timeout)."""


class TLCResult:
    def __init__(self, out, wall):
        self.out = out
        self.wall = wall
        self.tuples = []      # parsed PrintT tuples: list of python lists
        self.generated = 0
        self.distinct = 0
        self.depth = 0
        self.coverage = {}    # action name -> (distinct, total)
        self.violation = None
        self._parse()

    def _parse(self):
        pending = None
        for line in self.out.splitlines():
            # TLC's pretty printer wraps long tuples over several lines: glue them back together
            if pending is not None:
                pending += " " + line.strip()
                if line.rstrip().endswith(">>"):
                    t = parse_tla_tuple(pending)
                    if t is not None:
                        self.tuples.append(t)
                    pending = None
                continue
            if line.startswith("<<\"") or line.startswith("<< \""):
                if line.rstrip().endswith(">>"):
                    t = parse_tla_tuple(line)
                    if t is not None:
                        self.tuples.append(t)
                else:
                    pending = line.rstrip()
                continue
            m = re.match(r"(\d+) states generated, (\d+) distinct states found", line)
            if m:
                self.generated, self.distinct = int(m.group(1)), int(m.group(2))
            m = re.match(r"The number of states generated: (\d+)", line)
            if m:
                self.generated = int(m.group(1))
                self.distinct = max(self.distinct, 0)
            m = re.match(r"The depth of the complete state graph search is (\d+)", line)
            if m:
                self.depth = int(m.group(1))
            m = re.match(r"<(\w+) line \d+, col \d+ to line \d+, col \d+ of module (\w+)>: (\d+):(\d+)", line)
            if m:
                name = m.group(1)
                d, t = int(m.group(3)), int(m.group(4))
                od, ot = self.coverage.get(name, (0, 0))
                self.coverage[name] = (od + d, ot + t)
            if re.match(r"Error: Invariant (\w+) is violated", line) or \
               re.match(r"Error: Action property (\w+) is violated", line) or \
               line.startswith("Error: Temporal properties were violated") or \
               line.startswith("Error: Deadlock reached"):
                self.violation = line

    def by_tag(self, tag):
        return [t for t in self.tuples if t and t[0] == tag]


def parse_tla_tuple(line):
    """Parse one printed TLA+ tuple of strings / integers / booleans, e.g. <<"CASE", 3, "json...">>.
    Strings are TLA+ string literals whose escapes coincide with JSON's."""
    line = line.strip()
    if not (line.startswith("<<") and line.endswith(">>")):
        return None
    body = line[2:-2]
    res = []
    i = 0
    n = len(body)
    while i < n:
        c = body[i]
        if c in " ,":
            i += 1
            continue
        if c == '"':
            j = i + 1
            while j < n:
                if body[j] == "\\":
                    j += 2
                    continue
                if body[j] == '"':
                    break
                j += 1
            try:
                res.append(json.loads(body[i:j + 1]))
            except ValueError:
                return None
            i = j + 1
        else:
            j = i
            while j < n and body[j] not in ",":
                j += 1
            tok = body[i:j].strip()
            if tok == "TRUE":
                res.append(True)
            elif tok == "FALSE":
                res.append(False)
            elif re.fullmatch(r"-?\d+", tok):
                res.append(int(tok))
            else:
                return None
            i = j
    return res


def run(module, cfg=None, *, simulate=None, depth=None, seed=None, workers=1, timeout=600, env=None,
        coverage=False, deadlock_ok=True, extra=(), cfg_text=None, spec_dir=None, allow_violation=False,
        xss="512m", heap=None):
    """Run TLC on spec/<module>.tla.  simulate = number of behaviours (None = exhaustive).
    Returns TLCResult; raises TLCError when TLC reports anything but success (unless allow_violation)."""
    spec_dir = spec_dir or SPEC_DIR
    meta = tempfile.mkdtemp(prefix="tlcmeta_")
    cfg_path = None
    try:
        if cfg_text is not None:
            fd, cfg_path = tempfile.mkstemp(prefix="cfg_", suffix=".cfg", dir=meta)
            with os.fdopen(fd, "w") as f:
                f.write(cfg_text)
        elif cfg is not None:
            cfg_path = cfg if os.path.isabs(cfg) else os.path.join(spec_dir, cfg)
        # (TLC's modules leave tlc-<n> directories in java.io.tmpdir: keep them inside the metadir, which is removed)
        cmd = ["java", "-XX:+UseParallelGC", "-Xss" + xss, "-Djava.io.tmpdir=" + meta]
        if heap:
            cmd.append("-Xmx" + heap)
        cmd += ["-cp", JAR + ":" + DEPS, "tlc2.TLC"]
        if simulate is not None:
            cmd += ["-simulate", "num=%d" % simulate]
        if depth is not None:
            cmd += ["-depth", str(depth)]
        if seed is not None:
            cmd += ["-seed", str(seed)]
        cmd += ["-workers", str(workers), "-metadir", meta, "-noGenerateSpecTE"]
        if deadlock_ok:
            cmd.append("-deadlock")
        if coverage:
            cmd += ["-coverage", "1"]
        if cfg_path:
            cmd += ["-config", cfg_path]
        cmd += list(extra)
        cmd.append(os.path.join(spec_dir, module + ".tla"))
        e = dict(os.environ)
        e.pop("JAVA_TOOL_OPTIONS", None)
        if env:
            e.update(env)
        t0 = time.time()
        try:
            p = subprocess.run(cmd, cwd=spec_dir, env=e, stdout=subprocess.PIPE, stderr=subprocess.STDOUT,
                               timeout=timeout, text=True, errors="replace")
        except subprocess.TimeoutExpired as ex:
            raise TLCError("TLC timed out after %ss on %s: %s" % (timeout, module, (ex.stdout or "")[-2000:]))
        res = TLCResult(p.stdout, time.time() - t0)
        bad = None
        if "java.lang.StackOverflowError" in p.stdout or "Exception in thread" in p.stdout:
            bad = "java exception"
        elif res.violation and not allow_violation:
            bad = res.violation
        elif p.returncode != 0 and not (allow_violation and res.violation):
            bad = "exit %d" % p.returncode
        if bad:
            tail = "\n".join(l for l in p.stdout.splitlines()
                             if not l.startswith(("Linting", "Semantic", "Parsing", "<<\"")))[-4000:]
            raise TLCError("TLC failed on %s (%s):\n%s" % (module, bad, tail))
        return res
    finally:
        shutil.rmtree(meta, ignore_errors=True)
