"""pybind generator: observation (instantiated tree + scanned registration events) and TLC validation (PyTrace)."""
import json
import os
import re
import tempfile
import traceback

import gen
import proj
import proj_py
import tlc
from proj import instantiator, parser

PICKLE_RE = (r'^py::pickle\(\s*\[\]\(const (?P<c>.+?) &a\)\{ /\* __getstate__: Returns a string that encodes the state '
             r'of the object \*/ return py::make_tuple\(gtsam::serialize\(a\)\); \},\s*\[\]\(py::tuple t\)\{ '
             r'/\* __setstate__ \*/ (?P<c2>.+?) obj; gtsam::deserialize\(t\[0\]\.cast<std::string>\(\), obj\); '
             r'return obj; \}\)$')


def normalise_events(events):
    """attach `special` to the registrations whose lambda body is one of the generator's fixed text patterns"""
    out = []
    for e in events:
        e = dict(e)
        if e["ev"] == "pickle":
            m = re.match(PICKLE_RE, e["text"].strip(), re.S)
            out.append({"ev": "pickle", "cls": e["cls"],
                        "wellformed": bool(m) and m.group("c") == e["cls"] and m.group("c2") == e["cls"]})
            continue
        if e["ev"] in ("def", "func"):
            body = " ".join(e["rawbody"].split())
            special = ""
            if e["ev"] == "def":
                if body == "return gtsam::serialize(*self);" and e["pyname"] == "serialize":
                    special = "serialize"
                elif body == "gtsam::deserialize(serialized, *self);" and e["pyname"] == "deserialize":
                    special = "deserialize"
                elif body == "return std::distance(self->begin(), self->end());":
                    special = "dunder-len"
                elif body == "return py::make_iterator(self->begin(), self->end());":
                    special = "dunder-iter"
                else:
                    m = re.match(r"^return std::find\(self->begin\(\), self->end\(\), (\w+)\) != self->end\(\);$", body)
                    if m:
                        special = "dunder-contains"
                        e.update({"callee": "", "callargs": [m.group(1)], "ret": False})
                    m = re.match(r"^gtsam::RedirectCout redirect; self\.(\w+)\((.*)\); return redirect\.str\(\);$", body)
                    if m:
                        special = "repr"
                        e.update({"callee": "self." + m.group(1), "ret": False,
                                  "callargs": [x.strip() for x in m.group(2).split(",")] if m.group(2).strip() else []})
            if special in ("serialize", "deserialize", "dunder-len", "dunder-iter"):
                e.update({"callee": "", "callargs": [], "ret": False})
            if not special and not e["simple"]:
                special = "unrecognised-body"
            e["special"] = special
            for k in ("rawbody", "simple", "hasdoc"):
                e.pop(k, None)
        out.append(e)
    return out


def lex_facts(inst):
    lower = {}
    stripped = {}
    hascomma = {}
    hasangle = {}

    def walk(items):
        for d in items:
            if d.get("k") == "class":
                lower[d["name"]] = d["name"].lower()
                stripped[d["cpp"]] = re.sub("[,:<> ]", "", d["cpp"])
                hascomma[d["cpp"]] = "," in d["cpp"]
                hasangle[d["cpp"]] = "<" in d["cpp"]
            elif d.get("k") == "namespace":
                walk(d["items"])
    walk(inst)
    return {"lower": lower or {"_": "_"}, "stripped": stripped or {"_": "_"}, "hascomma": hascomma or {"_": False},
            "hasangle": hasangle or {"_": False}}


def typedef_of_non_template(tree):
    """a typedef whose target names a class declared WITHOUT template parameters: outside the dialect
    (Instantiate.tla: 'undefined / typedef-of-non-template'), nothing downstream is judged"""
    plain, targets = set(), []

    def walk(items):
        for d in items:
            if d["k"] == "namespace":
                walk(d["items"])
            elif d["k"] == "class" and not d["tmpl"]:
                plain.add(d["name"])
            elif d["k"] == "typedef":
                targets.append(d["t"]["qn"][-1])
    walk(tree)
    return any(t in plain for t in targets)


def observe(text, top=("",), ignore=(), ser=False, module_name="mod", submodules=None, xml=""):
    """-> dict(outcome=..., inst=..., scan=...)"""
    try:
        m = parser.Module.parseString(text)
        if typedef_of_non_template(proj.proj_tree(m)):
            return {"outcome": "not-judged:typedef-of-non-template"}
        m = instantiator.instantiate_namespace(m)
        proj.SPELL = []
        try:
            inst = proj.proj_inst(m)
            seen, spell = set(), []
            for x in proj.SPELL:
                if x["cpp"] not in seen:
                    seen.add(x["cpp"])
                    spell.append(x)
        finally:
            proj.SPELL = None
    except proj.ProjectionError:
        # an instantiated tree of impossible shape: C02 reports it, the generator checks do not judge the module
        return {"outcome": "front-exc:impossible-instantiated-tree"}
    except Exception as e:  # noqa: BLE001
        return {"outcome": "front-exc:" + type(e).__name__}
    r = gen.pybind_text(text, module_name=module_name, top=top, ignore=ignore, ser=ser, submodules=submodules, xml=xml)
    if r[0] != "ok":
        return {"outcome": "gen-exc:" + r[1], "inst": inst, "msg": r[2], "tb": r[3]}
    w = gen.PybindWrapper(module_name=module_name, top_module_namespaces=list(top), use_boost_serialization=ser,
                          ignore_classes=list(ignore), module_template=proj_py.MARK_TPL, xml_source=xml)
    out = w.wrap_file(text, module_name=module_name, submodules=None if submodules is None else list(submodules))
    try:
        sc = proj_py.scan(out, has_doc=bool(xml))
    except proj_py.ScanError as e:
        body = proj_py.sections(out)["BODY"] if "@@BODY<<" in out else out
        return {"outcome": "unscannable", "inst": inst, "detail": str(e), "balanced": proj_py.balanced(body),
                "text": out}
    sc["events"] = normalise_events(sc["events"])
    return {"outcome": "ok", "inst": inst, "scan": sc, "text": out, "spell": spell}


def validate(batch, timeout=1800):
    """batch: [{id, inst, opts{top,ignore,ser}, events, includes}] -> {id: clause}"""
    obs = []
    for b in batch:
        obs.append({"id": b["id"], "inst": b["inst"], "opts": b["opts"], "events": b["events"],
                    "includes": b["includes"], "export": b.get("export", []), "spell": b.get("spell", []), "lex": lex_facts(b["inst"])})
    fd, path = tempfile.mkstemp(prefix="pytrace_", suffix=".json")
    try:
        with os.fdopen(fd, "w") as f:
            json.dump(obs, f)
        r = tlc.run("PyTrace", "PyTrace.cfg", env={"TRACE_FILE": path}, timeout=timeout)
    finally:
        os.unlink(path)
    out = {t[1]: json.loads(t[2]) for t in r.by_tag("VERDICT")}
    if len(out) != len(batch):
        raise RuntimeError("PyTrace: %d verdicts for %d observations" % (len(out), len(batch)))
    return out, r
