"""Run the two generators of the implementation on interface text; collect what they produce."""
import os
import shutil
import sys
import tempfile
import traceback

import proj  # noqa: F401  (puts $VERIF_REPO on sys.path)
from gtwrap.matlab_wrapper import MatlabWrapper  # noqa: E402
from gtwrap.pybind_wrapper import PybindWrapper  # noqa: E402

REPO = proj.REPO
with open(os.path.join(REPO, "templates", "pybind_wrapper.tpl.example")) as _f:
    PYBIND_TPL = _f.read()


def _exc(e):
    return ("exc", type(e).__name__, str(e)[:300], traceback.format_exc()[-1200:])


def pybind_text(text, module_name="mod", top=("",), ignore=(), ser=False, submodules=None, xml="", wrapper=None):
    """PybindWrapper.wrap_file on text -> ('ok', cpp text) | ('exc', name, msg, tb)."""
    try:
        w = wrapper or PybindWrapper(module_name=module_name, top_module_namespaces=list(top),
                                     use_boost_serialization=ser, ignore_classes=list(ignore),
                                     module_template=PYBIND_TPL, xml_source=xml)
        return ("ok", w.wrap_file(text, module_name=module_name,
                                  submodules=None if submodules is None else list(submodules)))
    except Exception as e:  # noqa: BLE001
        return _exc(e)


def read_tree(root):
    out = {}
    for d, _dirs, files in os.walk(root):
        for fn in files:
            p = os.path.join(d, fn)
            with open(p, "rb") as f:
                out[os.path.relpath(p, root)] = f.read().decode("utf-8", "replace")
    return out


def list_tree(root):
    """Every path under root (files with content hash, directories) - to detect *any* file system effect."""
    out = {}
    for d, dirs, files in os.walk(root):
        for x in dirs:
            out[os.path.relpath(os.path.join(d, x), root) + "/"] = "dir"
        for fn in files:
            p = os.path.join(d, fn)
            with open(p, "rb") as f:
                out[os.path.relpath(p, root)] = f.read()
    return out


def matlab_files(texts, module_name="mod", top=("",), ignore=(), ser=False, keep_dir=None):
    """MatlabWrapper.wrap on files holding `texts` -> ('ok', {relpath: content}) | ('exc', ...).
    The output directory is fresh; on failure the listing of what was nevertheless written is returned too."""
    tmp = tempfile.mkdtemp(prefix="mwrap_")
    try:
        srcs = []
        for i, t in enumerate(texts if isinstance(texts, (list, tuple)) else [texts]):
            p = os.path.join(tmp, "in%d.i" % i)
            with open(p, "w") as f:
                f.write(t)
            srcs.append(p)
        out = os.path.join(tmp, "out")
        os.mkdir(out)
        try:
            w = MatlabWrapper(module_name=module_name, top_module_namespace=list(top), ignore_classes=list(ignore),
                              use_boost_serialization=ser)
            w.wrap(srcs, path=out)
        except Exception as e:  # noqa: BLE001
            return _exc(e) + (sorted(list_tree(out)),)
        return ("ok", read_tree(out))
    finally:
        shutil.rmtree(tmp, ignore_errors=True)
