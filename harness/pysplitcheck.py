"""C16 executed: a 'call' profile module is split into a main file and an additional file at a top-level declaration
boundary, both units are generated the way the build does it (PybindWrapper.wrap on the list, wrap_submodule on the
additional file), compiled, LINKED into one extension module and imported; the session plan PyCall computes for the
WHOLE module must run on it exactly as on the single-file build (same exposed names, same forwarding)."""
import json
import os
import shutil
import subprocess
import tempfile

import cases
import common
import cpplib
import gen
import layout
import pycallcheck
import pycheck
import pyexec


def item_ends(toks):
    """indices (exclusive) where a top-level declaration ends"""
    ends, stack, k = [], [], 0
    while k < len(toks):
        t = toks[k]
        if t == "{":
            stack.append("ns" if k >= 2 and toks[k - 2] == "namespace" else "other")
        elif t == "}":
            kind = stack.pop()
            if not stack and kind == "ns":
                ends.append(k + 1)            # a namespace block ends without ';'
        elif t == ";" and not stack:
            ends.append(k + 1)
        k += 1
    return ends


def base_in_other_part(tree1, tree2):
    names1 = set()

    def collect(items, acc):
        for d in items:
            if d["k"] == "namespace":
                collect(d["items"], acc)
            elif d["k"] == "class":
                acc.add(d["name"])
    collect(tree1, names1)

    def uses(items):
        for d in items:
            if d["k"] == "namespace" and uses(d["items"]):
                return True
            if d["k"] == "class" and d["hasbase"] and d["base"]["qn"][-1] in names1:
                return True
        return False
    return uses(tree2)


def exec_job(item):
    mid, toks, tree, plan, pch, cut = item
    ends = item_ends(toks)
    if len(ends) != len(tree) or not (0 < cut < len(tree)):
        return mid, "not-split", None, []
    if base_in_other_part(tree[:cut], tree[cut:]):
        return mid, "not-judged:base-class-in-the-main-file", None, []      # (additional files are initialised first)
    t1, t2 = layout.render(toks[:ends[cut - 1]]), layout.render(toks[ends[cut - 1]:])
    d = tempfile.mkdtemp(prefix="c16x_")
    cwd = os.getcwd()
    try:
        main_i, sub_i = os.path.join(d, "main.i"), os.path.join(d, "multi.i")
        with open(main_i, "w") as f:
            f.write(t1)
        with open(sub_i, "w") as f:
            f.write(t2)
        with open(os.path.join(d, "lib.h"), "w") as f:
            f.write(cpplib.header(tree))
        try:
            w = gen.PybindWrapper(module_name="mod", top_module_namespaces=[""], ignore_classes=[], module_template=pyexec.TPL)
            w.wrap([main_i, sub_i], os.path.join(d, "unit_main.cpp"))
            os.chdir(d)
            w2 = gen.PybindWrapper(module_name="mod", top_module_namespaces=[""], ignore_classes=[], module_template=pyexec.TPL)
            w2.wrap_submodule(sub_i)
        except Exception as e:  # noqa: BLE001
            return mid, "gen-exc", "%s: %s" % (type(e).__name__, str(e)[:200]), []
        finally:
            os.chdir(cwd)
        if not os.path.exists(os.path.join(d, "multi.cpp")):
            return mid, "additional-unit-not-written", sorted(os.listdir(d)), []
        objs = []
        for src in ("unit_main.cpp", "multi.cpp"):
            o = os.path.join(d, src[:-4] + ".o")
            p = subprocess.run(["g++"] + pyexec.FLAGS + ["-c", "-I", d, "-I", pch, "-I", pyexec.PBINC, "-I", pyexec.PYINC, "-include", "pch.h",
                                                       "-o", o, os.path.join(d, src)], stdout=subprocess.PIPE, stderr=subprocess.PIPE)
            if p.returncode != 0:
                return mid, "compile-error", [l for l in p.stderr.decode().split("\n") if "error" in l][:6], []
            objs.append(o)
        so = os.path.join(d, "mod" + pyexec.EXT)
        p = subprocess.run(["g++", "-shared", "-o", so] + objs, stdout=subprocess.PIPE, stderr=subprocess.PIPE)
        if p.returncode != 0:
            return mid, "link-error", p.stderr.decode()[-800:], []
        obs = pyexec.run_plan(d, plan)
        if isinstance(obs, dict):
            return mid, "import-or-driver-crash", obs, []
        bad = []
        for k, (st, ob) in enumerate(zip(plan, obs)):
            c = pycallcheck.judge(st, ob)
            if c:
                bad.append((c, k, st, ob))
        return mid, "ok", {"main": t1, "additional": t2}, bad
    finally:
        shutil.rmtree(d, ignore_errors=True)


def run(rep, thorough):
    pch = pyexec.ensure_pch()
    cs, r = cases.simulate(n=120 if thorough else 16, seed=rep.seed + 31, target=12, members=8, profile="call")
    rep.count("states", r.generated)
    rep.count("transitions", r.generated)
    batch, meta = [], {}
    for k, c in enumerate(cs):
        if len(c["tree"]) < 2:
            continue
        text = layout.render(c["toks"])
        ob = pycheck.observe(text)
        if ob["outcome"] != "ok":
            continue
        cpps = pycallcheck.class_cpps(ob["inst"])
        if len(cpps) != len(set(cpps)):
            continue
        lex = pycheck.lex_facts(ob["inst"])
        lex["st"] = {x["cpp"]: x["st"] for x in ob["spell"]}
        mid = "s%d" % k
        batch.append({"id": mid, "inst": ob["inst"], "lex": lex})
        meta[mid] = c
    plans, rt = pycallcheck.plans_for(batch)
    rep.count("states", rt.distinct)
    rep.count("transitions", rt.generated)
    items = []
    for mid, c in meta.items():
        n = len(c["tree"])
        for cut in sorted({1, n // 2, n - 1} - {0, n}):
            items.append((mid + "/%d" % cut, c["toks"], c["tree"], plans[mid], pch, cut))
    res = common.pmap(exec_job, items, chunksize=1)
    outcomes, nsteps = {}, 0
    for (mid, outcome, detail, bad), it in zip(res, items):
        outcomes[outcome] = outcomes.get(outcome, 0) + 1
        text = layout.render(it[1])
        if outcome in ("compile-error", "link-error", "import-or-driver-crash", "additional-unit-not-written"):
            rep.violation("split-module-does-not-" + {"compile-error": "compile", "link-error": "link", "import-or-driver-crash": "import",
                                                      "additional-unit-not-written": "produce-its-additional-unit"}[outcome], "",
                          {"text": text, "cut_after_declaration": it[5], "detail": detail})
        elif outcome == "ok":
            nsteps += len(it[3])
            for clause, k, st, ob in bad[:2]:
                rep.violation("split-module-behaves-differently-from-the-whole", "",
                              {"text": text, "parts": detail, "clause": clause, "step": k, "plan_step": st, "observed": ob})
    rep.count("traces_validated_against_impl", len(items))
    rep.count("evaluations", len(items))
    rep.cov["linked_split_modules"] = outcomes
    rep.cov["linked_split_module_steps"] = nsteps
