"""Build and drive a compiled MEX gateway (C11): generated <module>_wrapper.cpp + real matlab.h + MEX mock +
instrumented library + the MATLAB-side emulation of harness/mexmock/session_driver.cpp."""
import os
import shutil
import subprocess

import gen
import proj_m
import proj_mexcpp

MOCK = os.path.join(os.path.dirname(os.path.abspath(__file__)), "mexmock")


def table_lines(files):
    """class table of the emulator from the scanned .m files"""
    out = []

    def ov(o, n, nout):
        gs = " ".join("%d %s" % (c["index"], c["type"].replace(" ", "_")) for c in o["checks"])
        return "%d %d %d %d %s" % (o["id"], n, nout, len(o["checks"]), gs)

    def nout(v):
        return {"": 0, "varargout{1} = ": 1, "[ varargout{1} varargout{2} ] = ": 2}[v]
    for f in files:
        if f["kind"] == "class":
            mname = f["path"][:-2].replace("/", ".").replace("+", "")
            out.append("class %s %s %d %s %d %d %d" % (mname, f["parent"], 1 if f["ctor"]["virtual_form"] else 0, f["ptr_property"],
                                                         f["ctor"]["upcast_id"], f["ctor"]["collector_id"], f["delete_id"]))
    for f in files:
        if f["kind"] == "class":
            mname = f["path"][:-2].replace("/", ".").replace("+", "")
            for o in f["ctor"]["overloads"]:
                out.append("ctor %s %s" % (mname, ov(o, o["nargin"], 0)))
            for m in f["methods"]:
                for o in m["overloads"]:
                    out.append("method %s %s %s" % (mname, m["name"], ov(o, o["nvarargin"], nout(o["varargout"]))))
            for m in f["statics"]:
                for o in m["overloads"]:
                    out.append("static %s %s %s" % (mname, m["name"], ov(o, o["nvarargin"], nout(o["varargout"]))))
            for g in f["getters"]:
                out.append("get %s %s %d" % (mname, g["name"], g["id"]))
            for g in f["setters"]:
                out.append("set %s %s %d" % (mname, g["name"], g["id"]))
        elif f["kind"] == "function":
            fname = f["path"][:-2].replace("/", ".").replace("+", "")
            for o in f["overloads"]:
                out.append("func %s %s" % (fname, ov(o, o["nvarargin"], nout(o["varargout"]))))
    return out


def build(workdir, interface_text, lib_header, module="session1", sanitize=False, repo=None):
    """-> (exe path, table path) ; raises RuntimeError with the compiler output on failure"""
    repo = repo or gen.REPO
    r = gen.matlab_files([interface_text], module_name=module)
    if r[0] != "ok":
        raise RuntimeError("generator failed: %s" % (r[1:3],))
    files = r[1]
    os.makedirs(os.path.join(workdir, "inc", "gtwrap"), exist_ok=True)
    shutil.copy(os.path.join(repo, "matlab.h"), os.path.join(workdir, "inc", "gtwrap", "matlab.h"))
    wrapper = os.path.join(workdir, module + "_wrapper.cpp")
    with open(wrapper, "w") as f:
        f.write(files[module + "_wrapper.cpp"])
    scans = [proj_m.scan_m(p, t) for p, t in sorted(files.items()) if p.endswith(".m")]
    cpp = proj_mexcpp.scan_cpp(files[module + "_wrapper.cpp"])
    names = [c["name"] for c in cpp["collectors"]]
    with open(os.path.join(workdir, "collectors.inc"), "w") as f:
        f.write("#include <string>\n#include <vector>\nstatic std::vector<std::string> collector_names = {%s};\n"
                % ", ".join('"%s"' % n for n in names))
        f.write("static size_t collector_size(const std::string &n) {\n")
        for n in names:
            f.write('  if (n == "%s") return collector_%s.size();\n' % (n, n))
        f.write("  return 999999;\n}\n")
    table = os.path.join(workdir, "table.txt")
    with open(table, "w") as f:
        f.write("\n".join(table_lines(scans)) + "\n")
    exe = os.path.join(workdir, "session" + ("_asan" if sanitize else ""))
    cmd = ["g++", "-std=c++17", "-O0", "-g", "-w", "-I", workdir, "-I", os.path.join(workdir, "inc"), "-I", MOCK,
           '-DSESSION_LIB="%s"' % lib_header, '-DSESSION_WRAPPER="%s"' % wrapper, "-o", exe,
           os.path.join(MOCK, "session_driver.cpp"), os.path.join(MOCK, "mock_mex.cpp")]
    if sanitize:
        cmd[1:1] = ["-fsanitize=address", "-fno-omit-frame-pointer"]
    p = subprocess.run(cmd, stdout=subprocess.PIPE, stderr=subprocess.PIPE)
    if p.returncode != 0:
        raise RuntimeError("gateway does not compile:\n" + p.stderr.decode("utf-8", "replace")[-3000:])
    return exe, table, scans


def run(exe, table, commands, timeout=120):
    """-> (list of parsed result lines, stderr, returncode)"""
    env = dict(os.environ, ASAN_OPTIONS="detect_leaks=0:abort_on_error=0")
    p = subprocess.run([exe, table], input=("\n".join(commands) + "\nquit\n").encode(), stdout=subprocess.PIPE,
                       stderr=subprocess.PIPE, timeout=timeout, env=env)
    out = []
    for line in p.stdout.decode("utf-8", "replace").split("\n"):
        if not line.strip():
            continue
        parts = [x.strip() for x in line.split(" | ")]
        d = {"raw": line, "status": parts[0][:1], "result": parts[0][2:]}
        for part in parts[1:]:
            k, _, v = part.partition(" ")
            if k == "L" or k == "C":
                d[k] = dict(x.split("=") for x in v.split()) if v else {}
            elif k == "G":
                d[k] = v.split() if v else []
        out.append(d)
    return out, p.stderr.decode("utf-8", "replace"), p.returncode
