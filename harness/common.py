"""Shared plumbing of the checks: tiers, seeds, evidence, violations / known findings, process pool."""
import hashlib
import json
import multiprocessing
import os
import sys
import time

VERIF = os.path.dirname(os.path.dirname(os.path.abspath(__file__)))
REPO = os.environ.get("VERIF_REPO", "/repo")
OUT = os.path.join(VERIF, "out")
EVIDENCE = os.path.join(VERIF, "evidence")
NCPU = min(16, os.cpu_count() or 1)


def seed():
    try:
        return int(os.environ.get("VERIF_SEED", "1"))
    except ValueError:
        return 1


def tier(argv=None):
    argv = sys.argv if argv is None else argv
    t = os.environ.get("VERIF_TIER", "quick")
    if "--tier" in argv:
        t = argv[argv.index("--tier") + 1]
    return "thorough" if t == "thorough" else "quick"


def load_findings():
    p = os.path.join(VERIF, "known_findings.json")
    with open(p) as f:
        return json.load(f)


class Report:
    """Collects what a check run covered and what it found; writes evidence; prints VIOLATION / KNOWN-FINDING lines."""

    def __init__(self, pid, level, technique=""):
        self.pid = pid
        self.level = level
        self.t0 = time.time()
        self.tier = tier()
        self.seed = seed()
        self.cov = {"samples": []}
        self.violations = []      # (clause, cls, witness dict)
        self.known_hits = {}      # finding id -> count
        self.assumptions = []
        self.findings = [f for f in load_findings().get("findings", []) if f.get("property") == pid]
        self.counters = {}
        rd = os.path.join(OUT, "replays")
        if os.path.isdir(rd):
            for fn in os.listdir(rd):
                if fn.startswith(pid + "-"):
                    os.unlink(os.path.join(rd, fn))

    def count(self, key, n=1):
        self.counters[key] = self.counters.get(key, 0) + n

    def sample(self, x, limit=5):
        if len(self.cov["samples"]) < limit:
            self.cov["samples"].append(x)

    def violation(self, clause, cls, witness):
        """Report a property violation.  cls is the class computed by the specification-side classifier
        (or '' if unclassified).  If a known finding lists this (clause, class) the violation is a KNOWN-FINDING."""
        # findings recorded for this property first, then consequences recorded under another property
        for f in sorted(self.findings, key=lambda x: 0 if x.get("property") == self.pid.rstrip("X") else 1):
            if f.get("status", "open") != "open":
                continue
            if f.get("class") == cls and cls and (not f.get("clause") or f.get("clause") == clause):
                fid = f.get("id", cls)
                if fid not in self.known_hits:
                    self.known_hits[fid] = {"n": 0, "what": f.get("what", cls), "witness": witness}
                self.known_hits[fid]["n"] += 1
                return False
        self.violations.append((clause, cls, witness))
        return True

    def finish(self):
        os.makedirs(EVIDENCE, exist_ok=True)
        os.makedirs(os.path.join(OUT, "replays"), exist_ok=True)
        for fid, h in sorted(self.known_hits.items()):
            print("KNOWN-FINDING: property=%s %s [%s] (%d occurrences this run)" % (self.pid, h["what"], fid, h["n"]))
        seen = set()
        per_key = {}
        for clause, cls, wit in self.violations:
            key = (clause, cls)
            per_key[key] = per_key.get(key, 0) + 1
            if per_key[key] > 5:
                continue        # at most 5 replay files / lines per (clause, class)
            blob = json.dumps({"property": self.pid, "clause": clause, "class": cls, "witness": wit},
                              indent=1, sort_keys=True, default=str)
            hsh = hashlib.sha256(blob.encode()).hexdigest()[:12]
            path = os.path.join(OUT, "replays", "%s-%s.json" % (self.pid, hsh))
            seen.add(key)
            with open(path, "w") as f:
                f.write(blob)
            print("VIOLATION property=%s replay=%s clause=%s class=%s" % (self.pid, path, clause, cls or "-"))
        cov = dict(self.cov)
        cov.update(self.counters)
        cov["known_finding_hits"] = {k: v["n"] for k, v in self.known_hits.items()}
        ev = {"property_id": self.pid, "tier": self.tier, "seed": self.seed, "level": self.level,
              "coverage": cov, "assumptions": self.assumptions, "wall_s": round(time.time() - self.t0, 2),
              "violations": len(self.violations)}
        with open(os.path.join(EVIDENCE, self.pid + ".json"), "w") as f:
            json.dump(ev, f, indent=1, sort_keys=True, default=str)
        return 1 if self.violations else 0


def pmap(fn, items, procs=None, chunksize=8):
    """Parallel map over processes (the parser costs ~10 ms per declaration; 16 cores are there to be used)."""
    items = list(items)
    procs = procs or NCPU
    if procs <= 1 or len(items) < 4:
        return [fn(x) for x in items]
    ctx = multiprocessing.get_context("fork")
    with ctx.Pool(procs) as pool:
        return pool.map(fn, items, chunksize=chunksize)


def decl_sequence(tree, depth=0):
    """flattened sequence of (kind, depth, salient member names) of a module - for order-sensitive stratification"""
    out = []
    for d in tree:
        if d.get("k") == "namespace":
            out.append(("namespace", depth, ""))
            out += decl_sequence(d["items"], depth + 1)
            out.append(("end-namespace", depth, ""))
        elif d.get("k") == "class":
            names = sorted({m["name"] for m in d.get("methods", []) if m["name"] in ("print", "serialize", "insert")})
            out.append(("class", depth, ",".join(names) + ("+enum" if d.get("enums") else "")))
        else:
            out.append((d.get("k"), depth, ""))
    return out


def cover_pairs(cases, rng, n):
    """greedy choice of n cases covering as many ordered pairs (x before y, was a namespace closed in between?) of
    declaration shapes as possible: defects that carry state from one declaration to a later one need a particular
    pair in a particular order"""
    pool = list(cases)
    rng.shuffle(pool)
    feats = []
    for c in pool:
        seq = decl_sequence(c["tree"])
        f = set()
        for i in range(len(seq)):
            if seq[i][0] in ("namespace", "end-namespace"):
                continue
            for j in range(i + 1, len(seq)):
                if seq[j][0] in ("namespace", "end-namespace"):
                    continue
                crossed = any(seq[k][0] == "end-namespace" for k in range(i + 1, j))
                f.add(((seq[i][0], seq[i][2]), (seq[j][0], seq[j][2]), crossed, seq[i][1] > 0, seq[j][1] > 0))
        feats.append(f)
    chosen, seen = [], set()
    remaining = set(range(len(pool)))
    for _ in range(min(n, len(pool))):
        # pairs separated by the end of a namespace first (that is where generator state is flushed), then the rest
        best = max(remaining, key=lambda i: (sum(1 for x in feats[i] - seen if x[2]), len(feats[i] - seen)))
        chosen.append(best)
        remaining.discard(best)
        seen |= feats[best]
    return [pool[i] for i in chosen]
