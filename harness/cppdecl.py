"""A conforming C++ library for an interface: declarations rendered from the abstract interface tree (the tree of
spec/Iface.tla, as emitted by the derivation machine).  Declarations only - the checks compile with -fsyntax-only.
The prelude declares the library types the 'exec' profile of spec/IfaceSim.tla draws from."""

PRELUDE = r'''
#pragma once
#include <map>
#include <memory>
#include <string>
#include <utility>
#include <vector>
#define VERIF_NESTED typedef int Value; typedef int Type; typedef int shared_ptr; typedef int Sub;
struct Key { VERIF_NESTED bool operator==(const Key&) const; };
struct Vector { VERIF_NESTED };
namespace gtsam {
struct Pose3 { VERIF_NESTED };
struct Point3 { VERIF_NESTED };
struct RedirectCout { std::string str() const; };
template <class T> std::string serialize(const T&);
template <class T> void deserialize(const std::string&, T&);
}
namespace Tools { struct Index { VERIF_NESTED }; }
namespace POSEs { struct Frame { VERIF_NESTED }; }
namespace Values { struct Entry { VERIF_NESTED }; }
namespace Util { struct Id { VERIF_NESTED }; }
namespace lib {
namespace geo { struct Shape { VERIF_NESTED virtual ~Shape(); }; }
template <class T> struct Box { VERIF_NESTED virtual ~Box(); };
template <class T> struct Seq { VERIF_NESTED };
}
'''


BASIC = {"void", "bool", "unsigned char", "char", "int", "size_t", "double", "float"}
_PARAMS = []      # template parameters in scope while a declaration is rendered


def cpp_type(t, this):
    """type record -> C++ spelling as declared in the library"""
    qn = list(t["qn"])
    if qn == ["This"]:
        name = this
    elif qn and qn[0] == "This":
        name = "typename " + this + "::" + "::".join(qn[1:]) if "<" in this else this + "::" + "::".join(qn[1:])
    else:
        name = "::".join(qn)
        if qn == ["string"]:
            name = "std::string"
        elif not (len(qn) == 1 and qn[0] in BASIC) and qn[0] not in _PARAMS and qn[0] != "std":
            name = "::" + name          # the interface names types by their full path from the global namespace
    if t["args"]:
        name += "< " + ", ".join(cpp_type(a, this) for a in t["args"]) + " >"
    if t["q"] == "*":
        name = "std::shared_ptr<%s>" % name
    elif t["q"] == "@":
        name += "*"
    elif t["q"] == "&":
        name += "&"
    return ("const " if t["const"] else "") + name


def scoped_needs_typename(t, params):
    return len(t["qn"]) > 1 and t["qn"][0] in params


def ctype(t, this, params):
    _PARAMS[:] = list(params)
    s = cpp_type(t, this)
    # dependent names need 'typename' in the library's own templates
    def fix(tt):
        out = []
        if scoped_needs_typename(tt, params):
            out.append("::".join(tt["qn"]))
        for a in tt["args"]:
            out += fix(a)
        return out
    for dep in fix(t):
        s = s.replace(dep, "typename " + dep, 1) if ("typename " + dep) not in s else s
    return s


def args_decl(args, this, params):
    return ", ".join("%s %s" % (ctype(a["t"], this, params), a["name"]) for a in args)


def ret_decl(r, this, params):
    if r["pair"]:
        return "std::pair<%s, %s>" % (ctype(r["t1"], this, params), ctype(r["t2"], this, params))
    return ctype(r["t1"], this, params)


def tmpl_head(tm):
    return "template <%s> " % ", ".join("class " + p["name"] for p in tm) if tm else ""


def class_decl(c, indent):
    params = [p["name"] for p in c["tmpl"]]
    this = c["name"] + ("<" + ", ".join(params) + ">" if params else "")
    pad = "  " * indent
    out = []
    base = ""
    if c["hasbase"]:
        _PARAMS[:] = list(params)
        base = " : public " + cpp_type(c["base"], this)
    out.append("%s%sclass %s%s {" % (pad, tmpl_head(c["tmpl"]), c["name"], base))
    out.append(pad + " public:")
    out.append(pad + "  VERIF_NESTED")
    if c["virtual"]:
        out.append(pad + "  virtual ~%s();" % c["name"])
    for e in c["enums"]:
        out.append(pad + "  enum class %s { %s };" % (e["name"], ", ".join(e["enumerators"])))
    for m in c["ctors"]:
        ps = params + [p["name"] for p in m["tmpl"]]
        out.append("%s  %s%s(%s);" % (pad, tmpl_head(m["tmpl"]), c["name"], args_decl(m["args"], this, ps)))
    for m in c["methods"]:
        ps = params + [p["name"] for p in m["tmpl"]]
        out.append("%s  %s%s %s(%s)%s;" % (pad, tmpl_head(m["tmpl"]), ret_decl(m["ret"], this, ps), m["name"],
                                          args_decl(m["args"], this, ps), " const" if m["const"] else ""))
    for m in c["statics"]:
        ps = params + [p["name"] for p in m["tmpl"]]
        out.append("%s  %sstatic %s %s(%s);" % (pad, tmpl_head(m["tmpl"]), ret_decl(m["ret"], this, ps), m["name"],
                                                args_decl(m["args"], this, ps)))
    for p in c["props"]:
        out.append("%s  %s %s;" % (pad, ctype(p["t"], this, params), p["name"]))
    def selfed(t):      # the class's own (unqualified) name inside the class means the class at hand
        t = dict(t, args=[selfed(a) for a in t["args"]])
        return dict(t, qn=["This"]) if t["qn"] == [c["name"]] else t
    for o in c["ops"]:
        o = dict(o, ret=dict(o["ret"], t1=selfed(o["ret"]["t1"]), t2=selfed(o["ret"]["t2"])),
                 args=[dict(a, t=selfed(a["t"])) for a in o["args"]])
        out.append("%s  %s operator%s(%s) const;" % (pad, ret_decl(o["ret"], this, params), o["op"], args_decl(o["args"], this, params)))
    if c["dunders"]:
        out.append(pad + "  const int* begin() const; const int* end() const;")
    out.append(pad + "};")
    return out


def decls(items, indent=0):
    pad = "  " * indent
    out = []
    for d in items:
        k = d["k"]
        if k == "namespace":
            out.append("%snamespace %s {" % (pad, d["name"]))
            out += decls(d["items"], indent + 1)
            out.append(pad + "}")
        elif k == "class":
            out += class_decl(d, indent)
        elif k == "function":
            ps = [p["name"] for p in d["tmpl"]]
            out.append("%s%s%s %s(%s);" % (pad, tmpl_head(d["tmpl"]), ret_decl(d["ret"], "", ps), d["name"], args_decl(d["args"], "", ps)))
        elif k == "enum":
            out.append("%senum class %s { %s };" % (pad, d["name"], ", ".join(d["enumerators"])))
        elif k == "variable":
            _PARAMS[:] = []
            out.append("%sextern %s %s;" % (pad, cpp_type(d["t"], ""), d["name"]))
    return out


def header(tree):
    return PRELUDE + "\n".join(decls(tree)) + "\n"
