"""Scanner for the ``.m`` files emitted by gtwrap's MATLAB wrapper generator.

``scan_m(relpath, text)`` recognises exactly the three text shapes produced by
``gtwrap/matlab_wrapper/wrapper.py``:

* class files   (``wrap_instantiated_class``)
* function files (``wrap_global_function``)
* enum files    (``wrap_enum``)

It extracts STRUCTURE ONLY.  It knows nothing about what "should" be in a file;
it only knows what the generator's text looks like.  Anything that does not
have one of the known shapes raises :class:`ScanError` -- the scanner never
guesses and never skips a non-blank line.

Conventions
-----------
* Lines are compared after stripping leading/trailing white space (MATLAB is
  not indentation sensitive).  Spacing *inside* a line is significant.
* Blank lines carry no structure and are ignored everywhere.
* The ``%`` comment lines in front of ``classdef`` (the class doc block) are
  accepted and not reported.
* All returned values are str / int / bool / list / dict (JSON serialisable).

Keys returned in addition to the ones required by the specification:

* ``ctor["name"]``     name in ``function obj = NAME(varargin)``
* ``loadobj_target``   X in ``obj = X.string_deserialize(sobj);`` ("" if absent)
"""

import re

__all__ = ["ScanError", "scan_m"]


class ScanError(Exception):
    """The text does not have a shape the generator is known to emit."""


# ---------------------------------------------------------------------------
# Line cursor
# ---------------------------------------------------------------------------


class _Cursor:
    """Iterates over the non-blank lines of a file (stripped)."""

    def __init__(self, path, text):
        self.path = path
        self.items = [(no, raw.strip())
                      for no, raw in enumerate(text.split("\n"), 1)
                      if raw.strip() != ""]
        self.pos = 0

    def at_end(self):
        return self.pos >= len(self.items)

    def peek(self):
        """Current line, or None at end of file."""
        return None if self.at_end() else self.items[self.pos][1]

    def fail(self, message):
        if self.at_end():
            where, line = "end of file", ""
        else:
            where, line = "line %d" % self.items[self.pos][0], self.items[
                self.pos][1]
        raise ScanError("%s: %s: %s: %r" % (self.path, where, message, line))

    def take(self):
        """Consume and return the current line."""
        if self.at_end():
            self.fail("unexpected end of file")
        line = self.items[self.pos][1]
        self.pos += 1
        return line

    def back(self):
        """Un-consume the previous line (used to report errors on it)."""
        self.pos -= 1

    def accept(self, literal):
        """Consume the current line if it equals ``literal``."""
        if self.peek() == literal:
            self.pos += 1
            return True
        return False

    def expect(self, literal):
        """The current line must equal ``literal``."""
        if self.peek() != literal:
            self.fail("expected %r" % literal)
        self.pos += 1

    def match(self, regex, what):
        """The current line must fully match ``regex``; returns the match."""
        line = self.peek()
        found = None if line is None else regex.fullmatch(line)
        if found is None:
            self.fail("expected %s" % what)
        self.pos += 1
        return found

    def try_match(self, regex):
        """Consume the current line if it fully matches ``regex``."""
        line = self.peek()
        found = None if line is None else regex.fullmatch(line)
        if found is not None:
            self.pos += 1
        return found


# ---------------------------------------------------------------------------
# Shared pieces: argument checks, error(), wrapper name bookkeeping
# ---------------------------------------------------------------------------

_MAGIC = "5139824614673773682"

_RE_ISA = re.compile(r" && isa\(varargin\{(\d+)\},'([^']*)'\)")
_RE_SIZE = re.compile(r" && (size\(varargin\{(\d+)\},\d+\)==\d+)")
_RE_ERROR = re.compile(r"error\('(.*)'\);")
_DOXYGEN = "% Doxygen can be found at https://gtsam.org/doxygen/"

_VARARGOUT = r"(|varargout\{1\} = |\[ varargout\{1\} varargout\{2\} \] = )"


def _parse_checks(cur, tail):
    """Parse `` && isa(varargin{i},'T') && size(varargin{i},d)==k ...``.

    ``tail`` is the part of an if/elseif line after the argument count.  The
    line it came from has already been consumed; errors are reported on it.
    """
    checks = []
    pos = 0
    while pos < len(tail):
        found = _RE_ISA.match(tail, pos)
        if found:
            checks.append({"index": int(found.group(1)),
                           "type": found.group(2),
                           "extra": []})
            pos = found.end()
            continue
        found = _RE_SIZE.match(tail, pos)
        if found:
            if not checks or checks[-1]["index"] != int(found.group(2)):
                cur.back()
                cur.fail("size() test does not follow an isa() test of the "
                         "same argument")
            checks[-1]["extra"].append(found.group(1))
            pos = found.end()
            continue
        cur.back()
        cur.fail("cannot parse argument checks at column %d of %r" %
                 (pos, tail))
    return checks


class _Wrappers:
    """Collects the gateway function names used in a file."""

    def __init__(self, cur):
        self.cur = cur
        self.name = ""

    def note(self, name):
        """Record a use of gateway function ``name`` (on the previous line)."""
        if self.name == "":
            self.name = name
        elif self.name != name:
            self.cur.back()
            self.cur.fail("gateway function %r differs from %r used earlier" %
                          (name, self.name))


def _parse_error_line(cur):
    return cur.match(_RE_ERROR, "error('...');").group(1)


# ---------------------------------------------------------------------------
# Enum files
# ---------------------------------------------------------------------------

_RE_CLASSDEF = re.compile(r"classdef (\S+) < (\S.*\S|\S)")   # the base may be spelled with blanks (templated base)
_RE_ENUMERATOR = re.compile(r"(\w+)\((\d+)\)")


def _scan_enum(cur, relpath, name):
    cur.expect("enumeration")
    enumerators = []
    while True:
        if cur.accept("end"):
            break
        found = cur.match(_RE_ENUMERATOR, "NAME(value) or 'end'")
        enumerators.append({"name": found.group(1),
                            "value": int(found.group(2))})
    cur.expect("end")
    if not cur.at_end():
        cur.fail("text after the end of the enum classdef")
    return {"kind": "enum", "path": relpath, "name": name,
            "enumerators": enumerators}


# ---------------------------------------------------------------------------
# Function files
# ---------------------------------------------------------------------------

_RE_FUNCTION = re.compile(r"function varargout = (\w+)\(varargin\)")
_RE_FUNC_IF = re.compile(r"(if|elseif) length\(varargin\) == (\d+)(.*)")
_RE_FUNC_CALL = re.compile(_VARARGOUT + r"(\w+)\((-?\d+), varargin\{:\}\);")


def _scan_function(cur, relpath):
    name = cur.match(_RE_FUNCTION, "function header").group(1)
    wrappers = _Wrappers(cur)
    overloads = []
    while True:
        if cur.accept("else"):
            break
        found = cur.match(_RE_FUNC_IF, "if/elseif length(varargin) == N, or "
                          "else")
        keyword = "if" if not overloads else "elseif"
        if found.group(1) != keyword:
            cur.back()
            cur.fail("expected %r" % keyword)
        nvarargin = int(found.group(2))
        checks = _parse_checks(cur, found.group(3))
        call = cur.match(_RE_FUNC_CALL, "[varargout = ]WRAPPER(ID, "
                         "varargin{:});")
        wrappers.note(call.group(2))
        overloads.append({"nvarargin": nvarargin, "checks": checks,
                          "id": int(call.group(3)),
                          "varargout": call.group(1)})
    if not overloads:
        cur.back()
        cur.fail("'else' without a preceding 'if'")
    error_text = _parse_error_line(cur)
    cur.expect("end")
    cur.expect("end")
    if not cur.at_end():
        cur.fail("text after the end of the function")
    return {"kind": "function", "path": relpath, "name": name,
            "overloads": overloads, "error_text": error_text,
            "wrapper": wrappers.name}


# ---------------------------------------------------------------------------
# Class files
# ---------------------------------------------------------------------------

_RE_PTR_PROPERTY = re.compile(r"(\w+) = 0")
_RE_PLAIN_PROPERTY = re.compile(r"\w+")

_CTOR_TAIL = (r" && isa\(varargin\{1\}, 'uint64'\)"
              r" && varargin\{1\} == uint64\(" + _MAGIC + r"\)")
_RE_CTOR_HEADER = re.compile(r"function obj = (\w+)\(varargin\)")
_RE_CTOR_IF_PLAIN = re.compile(r"if nargin == 2" + _CTOR_TAIL)
_RE_CTOR_IF_VIRTUAL = re.compile(
    r"if \(nargin == 2 \|\| \(nargin == 3 && strcmp\(varargin\{3\}, 'void'\)\)\)"
    + _CTOR_TAIL)
_RE_CTOR_UPCAST = re.compile(r"my_ptr = (\w+)\((-?\d+), varargin\{2\}\);")
_RE_CTOR_COLLECTOR = re.compile(r"(base_ptr = )?(\w+)\((-?\d+), my_ptr\);")
_RE_CTOR_ELSEIF = re.compile(r"elseif nargin == (\d+)(.*)")
_RE_CTOR_CALL = re.compile(
    r"(my_ptr|\[ my_ptr, base_ptr \]) = (\w+)\((-?\d+)((?:, varargin\{\d+\})*)\);")
_RE_CTOR_BASE = re.compile(
    r"obj = obj@(\S.*?)\(uint64\(" + _MAGIC + r"\), base_ptr\);")
_RE_CTOR_ASSIGN = re.compile(r"obj\.(\w+) = my_ptr;")

_RE_DELETE_CALL = re.compile(r"(\w+)\((-?\d+), obj\.(\w+)\);")

_DISPLAY_LINES = (
    "function display(obj), obj.print(''); end",
    "%DISPLAY Calls print on the object",
    "function disp(obj), obj.display; end",
    "%DISP Calls print on the object",
)

_RE_METHOD_HEADER = re.compile(r"function varargout = (\w+)\(this, varargin\)")
_RE_STATIC_HEADER = re.compile(r"function varargout = (\w+)\(varargin\)")
_RE_USAGE = re.compile(r"% (\S+) usage: (\w+)\((.*)\) : returns (.*)")
_RE_METHOD_IF = re.compile(r"if length\(varargin\) == (\d+)(.*)")
_RE_METHOD_CALL = re.compile(
    _VARARGOUT + r"(\w+)\((-?\d+), this, varargin\{:\}\);")

_RE_GETTER_HEADER = re.compile(r"function varargout = get\.(\w+)\(this\)")
_RE_GETTER_CALL = re.compile(r"varargout\{1\} = (\w+)\((-?\d+), this\);")
_RE_SETTER_HEADER = re.compile(r"function set\.(\w+)\(this, value\)")
_RE_SETTER_CALL = re.compile(r"(\w+)\((-?\d+), this, value\);")

_SAVEOBJ_LINES = (
    "function sobj = saveobj(obj)",
    "% SAVEOBJ Saves the object to a matlab-readable format",
    "sobj = obj.string_serialize();",
    "end",
)
_RE_LOADOBJ_CALL = re.compile(r"obj = (\S*)\.string_deserialize\(sobj\);")


def _scan_properties_block(cur):
    cur.expect("properties")
    found = cur.match(_RE_PTR_PROPERTY, "'ptr_NAME = 0'")
    properties = [found.group(1)]
    while not cur.accept("end"):
        found = cur.match(_RE_PLAIN_PROPERTY, "a property name or 'end'")
        properties.append(found.group(0))
    return properties


def _scan_constructor(cur, wrappers):
    """``function obj = NAME(varargin) ... end`` including both 'end's."""
    ctor = {"name": cur.match(_RE_CTOR_HEADER, "constructor header").group(1),
            "virtual_form": False, "upcast_id": -1, "collector_id": -1,
            "collector_has_base": False, "overloads": [], "base_call": "",
            "error_text": ""}

    # First branch: adopt an existing pointer.
    if cur.try_match(_RE_CTOR_IF_VIRTUAL):
        ctor["virtual_form"] = True
        cur.expect("if nargin == 2")
        cur.expect("my_ptr = varargin{2};")
        cur.expect("else")
        found = cur.match(_RE_CTOR_UPCAST,
                          "my_ptr = WRAPPER(ID, varargin{2});")
        wrappers.note(found.group(1))
        ctor["upcast_id"] = int(found.group(2))
        cur.expect("end")
    else:
        cur.match(_RE_CTOR_IF_PLAIN, "the 'if nargin == 2 ...' pointer branch")
        cur.expect("my_ptr = varargin{2};")
    found = cur.match(_RE_CTOR_COLLECTOR, "[base_ptr = ]WRAPPER(ID, my_ptr);")
    ctor["collector_has_base"] = found.group(1) is not None
    wrappers.note(found.group(2))
    ctor["collector_id"] = int(found.group(3))

    # One elseif branch per constructor overload.
    while not cur.accept("else"):
        found = cur.match(_RE_CTOR_ELSEIF, "'elseif nargin == N ...' or "
                          "'else'")
        nargin = int(found.group(1))
        checks = _parse_checks(cur, found.group(2))
        call = cur.match(_RE_CTOR_CALL, "OUTPUTS = WRAPPER(ID, varargin{1}, "
                         "...);")
        wrappers.note(call.group(2))
        passed = [int(k) for k in re.findall(r"varargin\{(\d+)\}",
                                             call.group(4))]
        if passed != list(range(1, len(passed) + 1)):
            cur.back()
            cur.fail("varargin{k} arguments are not numbered 1..n")
        ctor["overloads"].append({"nargin": nargin, "checks": checks,
                                  "id": int(call.group(3)),
                                  "nargs_passed": len(passed),
                                  "outputs": call.group(1)})

    ctor["error_text"] = _parse_error_line(cur)
    cur.expect("end")
    found = cur.try_match(_RE_CTOR_BASE)
    if found:
        ctor["base_call"] = found.group(1)
    ptr_property = cur.match(_RE_CTOR_ASSIGN,
                             "obj.ptr_NAME = my_ptr;").group(1)
    cur.expect("end")
    return ctor, ptr_property


def _scan_delete(cur, wrappers):
    cur.expect("function delete(obj)")
    found = cur.match(_RE_DELETE_CALL, "WRAPPER(ID, obj.ptr_NAME);")
    wrappers.note(found.group(1))
    cur.expect("end")
    return int(found.group(2)), found.group(3)


def _scan_display(cur):
    if cur.peek() != _DISPLAY_LINES[0]:
        return False
    for line in _DISPLAY_LINES:
        cur.expect(line)
    return True


def _scan_method(cur, wrappers, static):
    """A ``function varargout = NAME([this, ]varargin)`` block.

    Two body shapes exist.  Ordinary methods are a sequence of::

        % NAME usage: name(ARGS) : returns TYPE
        % Doxygen can be found at https://gtsam.org/doxygen/
        if length(varargin) == N && ...
          [varargout = ]WRAPPER(ID, [this, ]varargin{:});
          return
        end

    followed by ``error('...');``.  The serialisation methods have a single
    overload whose ``if`` continues with ``else / error('...'); / end``.
    """
    header = _RE_STATIC_HEADER if static else _RE_METHOD_HEADER
    call_re = _RE_FUNC_CALL if static else _RE_METHOD_CALL
    name = cur.match(header, "method header").group(1)
    method = {"name": name, "overloads": [], "error_text": ""}

    while True:
        found = cur.try_match(_RE_ERROR)
        if found:
            method["error_text"] = found.group(1)
            break

        usage = cur.match(_RE_USAGE, "'% NAME usage: name(ARGS) : returns "
                          "TYPE' or error('...');")
        if usage.group(2) != name or usage.group(1) != name.upper():
            cur.back()
            cur.fail("usage comment does not name method %r" % name)
        cur.expect(_DOXYGEN)
        cond = cur.match(_RE_METHOD_IF, "if length(varargin) == N ...")
        nvarargin = int(cond.group(1))
        checks = _parse_checks(cur, cond.group(2))
        call = cur.match(call_re, "[varargout = ]WRAPPER(ID, %svarargin{:});"
                         % ("" if static else "this, "))
        wrappers.note(call.group(2))
        method["overloads"].append({
            "nvarargin": nvarargin, "checks": checks,
            "id": int(call.group(3)), "varargout": call.group(1),
            "usage_args": usage.group(3), "returns": usage.group(4)})

        if cur.accept("return"):
            cur.expect("end")
            continue
        # if / else / error / end form: this is the only overload.
        if len(method["overloads"]) != 1:
            cur.fail("expected 'return'")
        cur.expect("else")
        method["error_text"] = _parse_error_line(cur)
        cur.expect("end")
        break

    cur.expect("end")
    return method


def _scan_getter(cur, wrappers):
    name = cur.match(_RE_GETTER_HEADER, "getter header").group(1)
    found = cur.match(_RE_GETTER_CALL, "varargout{1} = WRAPPER(ID, this);")
    wrappers.note(found.group(1))
    cur.expect("this.%s = varargout{1};" % name)
    cur.expect("end")
    return {"name": name, "id": int(found.group(2))}


def _scan_setter(cur, wrappers):
    name = cur.match(_RE_SETTER_HEADER, "setter header").group(1)
    cur.expect("obj.%s = value;" % name)
    found = cur.match(_RE_SETTER_CALL, "WRAPPER(ID, this, value);")
    wrappers.note(found.group(1))
    cur.expect("end")
    return {"name": name, "id": int(found.group(2))}


def _placeholder(name):
    """saveobj / loadobj are reported as methods without overloads."""
    return {"name": name, "overloads": [], "error_text": ""}


def _scan_class(cur, relpath, name, parent):
    wrappers = _Wrappers(cur)
    result = {"kind": "class", "path": relpath, "name": name, "parent": parent}

    result["properties"] = _scan_properties_block(cur)

    cur.expect("methods")
    result["ctor"], result["ptr_property"] = _scan_constructor(cur, wrappers)
    result["delete_id"], result["delete_ptr"] = _scan_delete(cur, wrappers)
    result["has_display"] = _scan_display(cur)

    methods, getters, setters = [], [], []
    while not cur.accept("end"):
        line = cur.peek()
        if line is None:
            cur.fail("unterminated methods block")
        if line == _SAVEOBJ_LINES[0]:
            for expected in _SAVEOBJ_LINES:
                cur.expect(expected)
            methods.append(_placeholder("saveobj"))
        elif _RE_METHOD_HEADER.fullmatch(line):
            methods.append(_scan_method(cur, wrappers, static=False))
        elif _RE_GETTER_HEADER.fullmatch(line):
            getters.append(_scan_getter(cur, wrappers))
        elif _RE_SETTER_HEADER.fullmatch(line):
            setters.append(_scan_setter(cur, wrappers))
        else:
            cur.fail("expected a method, a property accessor, or 'end'")
    result["methods"] = methods
    result["getters"] = getters
    result["setters"] = setters

    cur.expect("methods(Static = true)")
    statics = []
    loadobj_target = ""
    while not cur.accept("end"):
        line = cur.peek()
        if line is None:
            cur.fail("unterminated static methods block")
        if line == "function obj = loadobj(sobj)":
            cur.take()
            cur.expect("% LOADOBJ Saves the object to a matlab-readable "
                       "format")
            loadobj_target = cur.match(
                _RE_LOADOBJ_CALL,
                "obj = CLASS.string_deserialize(sobj);").group(1)
            cur.expect("end")
            statics.append(_placeholder("loadobj"))
        elif _RE_STATIC_HEADER.fullmatch(line):
            statics.append(_scan_method(cur, wrappers, static=True))
        else:
            cur.fail("expected a static method or 'end'")
    result["statics"] = statics
    result["loadobj_target"] = loadobj_target

    cur.expect("end")  # closes classdef
    if not cur.at_end():
        cur.fail("text after the end of the classdef")
    result["wrapper"] = wrappers.name
    return result


# ---------------------------------------------------------------------------
# Entry point
# ---------------------------------------------------------------------------


def scan_m(relpath, text):
    """Scan one generated ``.m`` file; see the module docstring."""
    cur = _Cursor(relpath, text)
    if cur.at_end():
        cur.fail("empty file")

    if _RE_FUNCTION.fullmatch(cur.peek()):
        return _scan_function(cur, relpath)

    # Class doc block: '%' lines in front of classdef.
    while cur.peek() is not None and cur.peek().startswith("%"):
        cur.take()
    found = cur.match(_RE_CLASSDEF, "'classdef NAME < PARENT' or a function "
                      "header")
    name, parent = found.group(1), found.group(2)
    if cur.peek() == "enumeration":
        if parent != "uint32":
            cur.fail("enumeration classdef %r does not derive from uint32" %
                     name)
        return _scan_enum(cur, relpath, name)
    return _scan_class(cur, relpath, name, parent)
