"""Instantiator: oracle runs (TLC evaluates spec/Instantiate.tla on the tree) and comparison with the observation."""
import json
import os
import tempfile
import traceback

import proj
import tlc
from proj import instantiator, parser


def idents_of(tree):
    """every identifier that can end up in an instantiated name -> its capitalised form (a lexical fact)"""
    out = {}

    def walk(x):
        if isinstance(x, dict):
            if "qn" in x and isinstance(x["qn"], list):
                for c in x["qn"]:
                    if isinstance(c, str) and c:
                        out[c] = c[0].upper() + c[1:]
            for v in x.values():
                walk(v)
        elif isinstance(x, list):
            for v in x:
                walk(v)
    walk(tree)
    # names produced by concatenation (nested template arguments): InstNameOf of every typename
    def instname(t):
        return t["qn"][-1] + "".join(instname(a) for a in t["args"])

    def walk2(x):
        if isinstance(x, dict):
            if set(x.keys()) == {"qn", "args", "const", "q", "basic"} and x["qn"]:
                n = instname(x)
                out[n] = n[0].upper() + n[1:]
            for v in x.values():
                walk2(v)
        elif isinstance(x, list):
            for v in x:
                walk2(v)
    walk2(tree)
    return out or {"_": "_"}


def observe_inst(text):
    """-> ('ok', instantiated tree projection) | ('exc', name, msg) | ('parse-reject', ...)"""
    try:
        m = parser.Module.parseString(text)
    except Exception as e:  # noqa: BLE001
        return ("parse-reject", type(e).__name__, str(e)[:200])
    try:
        m = instantiator.instantiate_namespace(m)
    except Exception as e:  # noqa: BLE001
        return ("exc", type(e).__name__, str(e)[:200], traceback.format_exc()[-800:])
    try:
        return ("ok", proj.proj_inst(m))
    except proj.ProjectionError as e:
        # the instantiated tree has a shape no declaration can have (e.g. a type with two pointer / reference markers)
        return ("impossible-tree", "ProjectionError", str(e)[:300])
    except Exception as e:  # noqa: BLE001
        return ("exc", type(e).__name__, str(e)[:200], traceback.format_exc()[-800:])


def oracle(batch, mode, timeout=1800):
    """batch: [{id, tree}] -> {id: instantiated tree per spec (mode 'spec') or per analysed deviations ('dev')}"""
    obs = [{"id": b["id"], "tree": b["tree"], "caps": idents_of(b["tree"])} for b in batch]
    fd, path = tempfile.mkstemp(prefix="insttrace_", suffix=".json")
    try:
        with os.fdopen(fd, "w") as f:
            json.dump(obs, f)
        r = tlc.run("InstTrace", "InstTrace_%s.cfg" % mode, env={"TRACE_FILE": path}, timeout=timeout)
    finally:
        os.unlink(path)
    out = {}
    for t in r.by_tag("INST"):
        out[t[1]] = json.loads(t[2])
    if len(out) != len(batch):
        raise RuntimeError("InstTrace(%s): %d results for %d observations" % (mode, len(out), len(batch)))
    return out, r


def norm(s):
    return s.replace(", ", ",") if isinstance(s, str) else s


def has_error(items):
    return any(d.get("k") == "error" or (d.get("k") == "namespace" and has_error(d["items"])) for d in items)


def has_undefined(items):
    """the case steps outside the dialect (e.g. typedef of a non-template): the spec does not say what happens"""
    return any(d.get("k") == "undefined" or (d.get("k") == "namespace" and has_undefined(d["items"])) for d in items)


def _is_st(x):
    return isinstance(x, dict) and set(x.keys()) == {"cpp", "const", "q", "cls"}


def mismatches(exp, obs, dev, path=""):
    """-> list of (category, path, expected, observed, dev_class).  category 'type' = a substituted type differs
    (C02); anything else is structure / naming / order (C08)."""
    out = []
    if _is_st(exp) and _is_st(obs):
        if (norm(exp["cpp"]), exp["const"], exp["q"]) != (norm(obs["cpp"]), obs["const"], obs["q"]):
            cls = ""
            if _is_st(dev) and (norm(dev["cpp"]), dev["const"], dev["q"]) == (norm(obs["cpp"]), obs["const"], obs["q"]):
                cls = dev["cls"]
            out.append(("type", path, exp["cpp"], obs["cpp"], cls))
        return out
    if type(exp) != type(obs):
        return [("structure", path, exp, obs, "")]
    if isinstance(exp, dict):
        if set(exp) != set(obs):
            return [("structure", path, sorted(exp), sorted(obs), "")]
        if exp.get("k") != obs.get("k"):
            return [("structure", path + ".k", exp.get("k"), obs.get("k"), "")]
        for k in sorted(exp):
            d = dev.get(k) if isinstance(dev, dict) else None
            out += mismatches(exp[k], obs[k], d, path + "." + k)
        return out
    if isinstance(exp, list):
        if len(exp) != len(obs):
            return [("count", path, len(exp), len(obs), "")]
        for i, (a, b) in enumerate(zip(exp, obs)):
            d = dev[i] if isinstance(dev, list) and len(dev) == len(exp) else None
            out += mismatches(a, b, d, "%s[%d]" % (path, i))
        return out
    if norm(exp) != norm(obs):
        cls = ""
        if dev is not None and norm(dev) == norm(obs):
            last = path.rsplit(".", 1)[-1]
            cls = {"cpp": "CppNameOfTemplatedArgument", "base": "ParamBelowFirstLevelUnsubstituted"}.get(last, "")
        cat = "name" if path.endswith((".name", ".cpp", ".base")) else "structure"
        out.append((cat, path, exp, obs, cls))
    return out
