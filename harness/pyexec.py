"""Build and drive a generated pybind11 module (C04 executed half): the REAL generated translation unit is compiled
and linked against an executable conforming library rendered from the specification's tree (harness/cpplib.py) and
imported into a fresh Python process, which executes a call plan emitted by TLC (spec/PyCall.tla) and reports, per
call, the library's call log and the result."""
import hashlib
import json
import os
import subprocess
import sys
import sysconfig

import common
import cpplib
import gen

BUILD = os.path.join(common.VERIF, "build")
PYINC = sysconfig.get_paths()["include"]
PBINC = os.path.join(common.REPO, "pybind11", "include")
PCH_SRC = ('#include <pybind11/pybind11.h>\n#include <pybind11/operators.h>\n#include <pybind11/stl.h>\n'
           '#include <pybind11/iostream.h>\n#include <pybind11/functional.h>\n')
FLAGS = ["-std=c++17", "-O0", "-w", "-fPIC", "-fvisibility=hidden"]
TPL = ('#include "pch.h"\n#include "lib.h"\nusing namespace std;\nnamespace py = pybind11;\n{submodules}\n'
       '{module_def} {{\n  m_.doc() = "{module_name}";\n{submodules_init}\n{wrapped_namespace}\n'
       '  m_.def("_verif_take_log", [](){{ std::vector<std::string> l = verif::calls(); verif::calls().clear(); return l; }});\n}}\n')
EXT = sysconfig.get_config_var("EXT_SUFFIX") or ".so"


def ensure_pch():
    os.makedirs(BUILD, exist_ok=True)
    key = hashlib.sha256((PCH_SRC + PBINC + PYINC + " ".join(FLAGS) +
                          subprocess.run(["g++", "--version"], stdout=subprocess.PIPE).stdout.decode()).encode())
    for root, _d, files in os.walk(PBINC):
        for fn in sorted(files):
            with open(os.path.join(root, fn), "rb") as f:
                key.update(f.read())
    d = os.path.join(BUILD, "pchx_" + key.hexdigest()[:12])
    if not os.path.exists(os.path.join(d, "pch.h.gch")):
        os.makedirs(d, exist_ok=True)
        with open(os.path.join(d, "pch.h"), "w") as f:
            f.write(PCH_SRC)
        p = subprocess.run(["g++"] + FLAGS + ["-x", "c++-header", "-I", PBINC, "-I", PYINC, "-o",
                            os.path.join(d, "pch.h.gch"), os.path.join(d, "pch.h")], stdout=subprocess.PIPE, stderr=subprocess.PIPE)
        if p.returncode != 0:
            raise RuntimeError("cannot precompile pybind11 headers: " + p.stderr.decode()[-800:])
    return d


def build(workdir, text, tree, pch, module="mod"):
    """-> ('ok', path of the extension module) | ('gen-exc', ..) | ('control-fails', stderr) | ('compile-error', errors)"""
    r = gen.pybind_text(text)
    if r[0] != "ok":
        return ("gen-exc", r[1:3])
    w = gen.PybindWrapper(module_name=module, top_module_namespaces=[""], ignore_classes=[], module_template=TPL)
    unit = w.wrap_file(text, module_name=module, submodules=[])
    with open(os.path.join(workdir, "lib.h"), "w") as f:
        f.write(cpplib.header(tree))
    with open(os.path.join(workdir, "control.cpp"), "w") as f:
        f.write('#include "lib.h"\nint main() { return 0; }\n')
    with open(os.path.join(workdir, "unit.cpp"), "w") as f:
        f.write(unit)
    c = subprocess.run(["g++"] + FLAGS + ["-fsyntax-only", "-I", workdir, os.path.join(workdir, "control.cpp")],
                       stdout=subprocess.PIPE, stderr=subprocess.PIPE)
    if c.returncode != 0:
        return ("control-fails", c.stderr.decode()[-2000:])
    so = os.path.join(workdir, module + EXT)
    p = subprocess.run(["g++"] + FLAGS + ["-shared", "-I", workdir, "-I", pch, "-I", PBINC, "-I", PYINC, "-include", "pch.h",
                                          "-o", so, os.path.join(workdir, "unit.cpp")], stdout=subprocess.PIPE, stderr=subprocess.PIPE)
    if p.returncode != 0:
        return ("compile-error", [l for l in p.stderr.decode().split("\n") if "error" in l][:8])
    return ("ok", so)


DRIVER = os.path.join(os.path.dirname(os.path.abspath(__file__)), "pydriver.py")


def run_plan(workdir, plan, module="mod", timeout=120):
    """-> list of observations (one per step) | raises RuntimeError if the driver itself fails"""
    pj = os.path.join(workdir, "plan.json")
    with open(pj, "w") as f:
        json.dump(plan, f)
    env = dict(os.environ, PYTHONDONTWRITEBYTECODE="1")
    p = subprocess.run([sys.executable, DRIVER, workdir, module, pj], stdout=subprocess.PIPE, stderr=subprocess.PIPE,
                       timeout=timeout, env=env)
    if p.returncode != 0:
        return {"crash": p.returncode, "stderr": p.stderr.decode("utf-8", "replace")[-1500:], "stdout": p.stdout.decode("utf-8", "replace")[-500:]}
    return json.loads(p.stdout.decode())
