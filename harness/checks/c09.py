"""C09 - generated pybind11 code compiles against any conforming C++ library.
Static clauses (every generated unit of the C03/C04 universes): balanced constructs, no identifier equal to a template
parameter of the module left in the unit, module / instance variables defined once (PyBind machine), lambda arity =
number of keyword arguments (part of the C04 record comparison).
Execution: for derivations of the 'exec' profile of spec/IfaceSim.tla (types restricted to a library that can be
rendered mechanically, literal defaults, distinct names per scope) a conforming library header is rendered from the
tree the specification emitted (harness/cppdecl.py) and g++ -std=c++17 -fsyntax-only must accept the generated unit
together with it (pybind11 headers of the repository, precompiled).  The header alone is compiled first: if that
fails the harness is wrong (exit 2), not the generator."""
import hashlib
import os
import random
import re
import shutil
import subprocess
import sys
import sysconfig
import tempfile

sys.path.insert(0, os.path.dirname(os.path.dirname(os.path.abspath(__file__))))
import cases  # noqa: E402
import common  # noqa: E402
import cppdecl  # noqa: E402
import gen  # noqa: E402
import layout  # noqa: E402
import proj  # noqa: E402
import proj_py  # noqa: E402
import tlc  # noqa: E402

PID = "C09"
BUILD = os.path.join(common.VERIF, "build")
PYINC = sysconfig.get_paths()["include"]
PBINC = os.path.join(common.REPO, "pybind11", "include")
PCH_SRC = ('#include <pybind11/pybind11.h>\n#include <pybind11/operators.h>\n#include <pybind11/stl.h>\n'
           '#include <pybind11/iostream.h>\n#include <pybind11/functional.h>\n')
TPL = ('#include "pch.h"\n#include "decl.h"\nusing namespace std;\nnamespace py = pybind11;\n{submodules}\n'
       '{module_def} {{\n  m_.doc() = "{module_name}";\n{submodules_init}\n{wrapped_namespace}\n}}\n')
PARAMS = {"T", "U", "POSE", "Va", "V", "M"}


def ensure_pch():
    os.makedirs(BUILD, exist_ok=True)
    key = hashlib.sha256((PCH_SRC + PBINC + PYINC + subprocess.run(["g++", "--version"], stdout=subprocess.PIPE).stdout.decode()).encode())
    for root, _d, files in os.walk(PBINC):
        for fn in sorted(files):
            with open(os.path.join(root, fn), "rb") as f:
                key.update(f.read())
    d = os.path.join(BUILD, "pch_" + key.hexdigest()[:12])
    if not os.path.exists(os.path.join(d, "pch.h.gch")):
        os.makedirs(d, exist_ok=True)
        with open(os.path.join(d, "pch.h"), "w") as f:
            f.write(PCH_SRC)
        p = subprocess.run(["g++", "-std=c++17", "-w", "-x", "c++-header", "-I", PBINC, "-I", PYINC, "-o",
                            os.path.join(d, "pch.h.gch"), os.path.join(d, "pch.h")], stdout=subprocess.PIPE, stderr=subprocess.PIPE)
        if p.returncode != 0:
            raise RuntimeError("cannot precompile pybind11 headers: " + p.stderr.decode()[-800:])
    return d


def compile_job(item):
    cid, origin, text, tree, pch = item
    tmp = tempfile.mkdtemp(prefix="c09_")
    try:
        r = gen.pybind_text(text)
        if r[0] != "ok":
            return {"id": cid, "outcome": "gen-exc", "detail": r[1:3]}
        w = gen.PybindWrapper(module_name="mod", top_module_namespaces=[""], ignore_classes=[], module_template=TPL)
        unit = w.wrap_file(text, module_name="mod", submodules=[])
        with open(os.path.join(tmp, "decl.h"), "w") as f:
            f.write(cppdecl.header(tree))
        with open(os.path.join(tmp, "control.cpp"), "w") as f:
            f.write('#include "decl.h"\nint main() { return 0; }\n')
        with open(os.path.join(tmp, "unit.cpp"), "w") as f:
            f.write(unit)
        base = ["g++", "-std=c++17", "-fsyntax-only", "-w", "-I", tmp, "-I", pch, "-I", PBINC, "-I", PYINC]
        c = subprocess.run(base + [os.path.join(tmp, "control.cpp")], stdout=subprocess.PIPE, stderr=subprocess.PIPE)
        if c.returncode != 0:
            return {"id": cid, "outcome": "control-fails", "detail": c.stderr.decode()[-1200:], "text": text}
        p = subprocess.run(base + ["-include", "pch.h", os.path.join(tmp, "unit.cpp")], stdout=subprocess.PIPE, stderr=subprocess.PIPE)
        if p.returncode != 0:
            errs = [l for l in p.stderr.decode().split("\n") if "error:" in l]
            stripped = re.sub(r'"(?:[^"\\]|\\.)*"', '""', unit)
            idents = set(re.findall(r"[A-Za-z_][A-Za-z0-9_]*", stripped))
            declared = set(re.findall(r"(?:template <|,) ?(\w+)(?= =| ,| >)", text))
            left = [p_ for p_ in sorted(idents & declared & PARAMS) + (["This"] if "This" in idents else [])
                    if re.search(r"(?<!::)(?<![A-Za-z0-9_])%s(?![A-Za-z0-9_])" % p_, stripped)]
            return {"id": cid, "outcome": "compile-error", "errors": errs[:6], "text": text, "origin": origin,
                    "leftover_nested": bool(left) and nested_only(stripped, left)}
        return {"id": cid, "outcome": "ok"}
    finally:
        shutil.rmtree(tmp, ignore_errors=True)


def static_job(item):
    cid, origin, text = item
    out = gen.PybindWrapper(module_name="mod", top_module_namespaces=[""], ignore_classes=[], module_template=proj_py.MARK_TPL)
    try:
        unit = out.wrap_file(text, module_name="mod")
    except Exception:  # noqa: BLE001
        return None
    body = proj_py.sections(unit)["BODY"]
    bad = []
    if not proj_py.balanced(body):
        bad.append(("unbalanced-or-truncated-construct", "", {"text": text}))
    # identifiers outside string literals
    stripped = re.sub(r'"(?:[^"\\]|\\.)*"', '""', body)
    idents = set(re.findall(r"[A-Za-z_][A-Za-z0-9_]*", stripped))
    declared = set(re.findall(r"(?:template <|,) ?(\w+)(?= =| ,| >)", text))
    # an occurrence qualified from the left (ns::T) is another entity that merely shares the spelling
    left = [p_ for p_ in sorted((idents & declared & PARAMS)) + (["This"] if "This" in idents else [])
            if re.search(r"(?<!::)(?<![A-Za-z0-9_])%s(?![A-Za-z0-9_])" % p_, stripped)]
    if left:
        bad.append(("unsubstituted-template-parameter", "ParamBelowFirstLevelUnsubstituted" if nested_only(stripped, left) else "",
                    {"text": text, "parameters": left}))
    return bad


def nested_only(body, params):
    """every remaining occurrence of a parameter is one the C02 known finding explains: it sits inside a template
    argument list that is itself nested in another one (depth >= 2), or it is a scoped use (T::X) or `This` inside a
    template argument list (depth >= 1).  A plain parameter at the first level IS substituted by the implementation,
    so finding one there is a new violation."""
    for p in params:
        for m in re.finditer(r"(?<!::)(?<![A-Za-z0-9_])%s(?![A-Za-z0-9_])" % re.escape(p), body):
            depth = 0
            j = m.start()
            # count unmatched '<' to the left within the statement
            while j > 0 and body[j] not in ";{}":
                if body[j] == ">":
                    depth -= 1
                elif body[j] == "<":
                    depth += 1
                j -= 1
            scoped = p == "This" or body[m.end():m.end() + 2] == "::"
            if depth < 1 or (depth == 1 and not scoped):
                return False
    return True


def classify_compile(res):
    joined = " ".join(res["errors"])
    if res.get("leftover_nested"):
        return "ParamBelowFirstLevelUnsubstituted"
    for p in list(PARAMS) + ["This"]:
        if re.search(r"'%s' (was not declared|has not been declared)" % p, joined) or re.search(r"‘%s’ (was not declared|has not been declared)" % p, joined):
            return "ParamBelowFirstLevelUnsubstituted"
    if re.search(r"(has not been declared|was not declared|does not name a type).*", joined) and "::" in res["text"] and "This ::" in res["text"].replace("This::", "This ::"):
        return "ThisScopedLosesEnclosingNamespace"
    return ""


def main():
    rep = common.Report(PID, "model_checking")
    rng = random.Random(rep.seed)
    thorough = rep.tier == "thorough"
    pch = ensure_pch()
    # static clauses over the broad universes
    cs, r = cases.simulate(n=2500 if thorough else 250, seed=rep.seed, target=10)
    ex, r2 = cases.exhaustive("types", typedepth=1, target=2, members=1, rich=True)
    ex = rng.sample(ex, 4000 if thorough else 300)
    rep.count("states", r.generated + max(r2.distinct, r2.generated))
    rep.count("transitions", r.generated + r2.generated)
    sjobs = [("s%d" % i, c["origin"], layout.render(c["toks"])) for i, c in enumerate(cs + ex)]
    nstatic = 0
    for bad in common.pmap(static_job, sjobs, chunksize=8):
        if bad is None:
            continue
        nstatic += 1
        for clause, cls, wit in bad:
            rep.violation(clause, cls, wit)
    # execution: exec profile
    ecs, r3 = cases.simulate(n=1500 if thorough else 140, seed=rep.seed + 1, target=9, profile="exec")
    rep.count("states", r3.generated)
    rep.count("transitions", r3.generated)
    jobs = [("e%d" % i, c["origin"], layout.render(c["toks"]), c["tree"], pch) for i, c in enumerate(ecs)]
    outcomes = {}
    for res in common.pmap(compile_job, jobs, chunksize=2):
        outcomes[res["outcome"]] = outcomes.get(res["outcome"], 0) + 1
        if res["outcome"] == "control-fails":
            raise RuntimeError("the rendered library header does not compile on its own (harness error): %s\n%s" % (res["detail"], res["text"]))
        if res["outcome"] == "compile-error":
            rep.violation("generated-unit-does-not-compile", classify_compile(res),
                          {"origin": res["origin"], "text": res["text"], "errors": res["errors"]})
    rep.count("traces_validated_against_impl", nstatic + len(jobs))
    rep.count("evaluations", nstatic + len(jobs))
    rep.cov["units_checked_statically"] = nstatic
    rep.cov["units_compiled"] = len(jobs)
    rep.cov["compile_outcomes"] = outcomes
    rep.cov["distinct_nontrivial"] = len({j[2] for j in jobs}) + nstatic
    rep.cov["rule"] = "one evaluation = one generated translation unit (static clauses) or one unit compiled against the rendered library"
    rep.sample({"exec_module": jobs[0][2][:400]})
    rep.assumptions += ["'any conforming library' is represented by the canonical one rendered from the interface (harness/cppdecl.py)",
                        "syntax-only compilation: no linking, no import"]
    return rep.finish()


if __name__ == "__main__":
    try:
        sys.exit(main())
    except (tlc.TLCError, proj.ProjectionError, RuntimeError, proj_py.ScanError) as e:
        print("MACHINERY FAILURE: %s" % str(e)[:3000], file=sys.stderr)
        sys.exit(2)
