"""C01 - interface files parse to a tree that mirrors the source exactly.
(G) every derivation TLC produces from spec/IfaceDerive.tla is replayed into Module.parseString and the projected
    tree must equal the tree the specification emitted (both views of templated types, scope links);
(V) the repository's fixtures are lexed, parsed, projected and TLC decides Explains(tree, tokens)."""
import glob
import json
import os
import random
import sys
import tempfile

sys.path.insert(0, os.path.dirname(os.path.dirname(os.path.abspath(__file__))))
import cases  # noqa: E402
import common  # noqa: E402
import layout  # noqa: E402
import lexer  # noqa: E402
import pipeline  # noqa: E402
import proj  # noqa: E402
import tlc  # noqa: E402

PID = "C01"


def classify_rejections(rejected):
    """Spec-side classes of analysed deviations: IfaceTrace!RejectClass names the class from the token sequence the
    spec derived; the harness then confirms the analysis (the same file with `char` for `unsigned char` in the
    instantiation lists parses to the expected tree) - otherwise the rejection has another cause and stays unclassified."""
    if not rejected:
        return {}
    batch = [{"id": "r%d" % k, "toks": c["toks"], "tree": [], "op": "rejected", "base": [], "i": 0, "x": 0, "groups": []}
             for k, (c, v) in enumerate(rejected)]
    fd, path = tempfile.mkstemp(prefix="ifacetrace_", suffix=".json")
    try:
        with os.fdopen(fd, "w") as f:
            json.dump(batch, f)
        r = tlc.run("IfaceTrace", "IfaceTrace.cfg", env={"TRACE_FILE": path}, timeout=900)
    finally:
        os.unlink(path)
    verdicts = {t[1]: t[2] for t in r.by_tag("VERDICT")}
    out = {}
    for k, (c, v) in enumerate(rejected):
        cls = verdicts.get("r%d" % k, "").partition("/")[2]
        if cls == "MultiWordBasicTypeInInstantiationList":
            toks, depth, keep = c["toks"], 0, []
            for i, t in enumerate(toks):
                if t == "{" and i and toks[i - 1] == "=":
                    depth += 1
                elif t == "}" and depth:
                    depth -= 1
                if depth and t == "unsigned" and i + 1 < len(toks) and toks[i + 1] == "char":
                    continue
                keep.append(t)
            if pipeline.parse_text(layout.render(keep))[0] != "ok":
                cls = ""
        out[id(c)] = cls
    return out


def fixture_batch():
    batch = []
    for f in sorted(glob.glob(os.path.join(common.REPO, "tests", "fixtures", "*.i"))):
        with open(f) as fh:
            text = fh.read()
        r = pipeline.parse_text(text)
        if r[0] != "ok":
            raise RuntimeError("fixture %s does not parse: %s" % (f, r[1:]))
        batch.append({"id": os.path.basename(f), "toks": lexer.lex(text), "tree": proj.proj_tree(r[1]),
                      "op": "", "base": [], "i": 0, "x": 0, "groups": []})
    return batch


def validate_batch(batch, rep, what):
    fd, path = tempfile.mkstemp(prefix="ifacetrace_", suffix=".json")
    try:
        with os.fdopen(fd, "w") as f:
            json.dump(batch, f)
        r = tlc.run("IfaceTrace", "IfaceTrace.cfg", env={"TRACE_FILE": path}, timeout=600)
    finally:
        os.unlink(path)
    verdicts = {v[1]: v[2] for v in r.by_tag("VERDICT")}
    if len(verdicts) != len(batch):
        raise RuntimeError("IfaceTrace produced %d verdicts for %d observations" % (len(verdicts), len(batch)))
    for ob in batch:
        if verdicts[ob["id"]]:
            rep.violation(verdicts[ob["id"]], "", {"what": what, "id": ob["id"], "toks": ob["toks"]})
    rep.count("traces_validated_against_impl", len(batch))
    rep.count("states", r.distinct)
    rep.count("transitions", r.generated)
    return r


def main():
    rep = common.Report(PID, "model_checking")
    rng = random.Random(rep.seed)
    thorough = rep.tier == "thorough"
    allcases = []
    plan = []
    if thorough:
        plan += [("sim", dict(n=6000, target=14)), ("sim", dict(n=1500, target=30, members=8))]
        plan += [("exh", dict(universe="types", typedepth=1, target=2, members=1)),
                 ("exh", dict(universe="sigs", maxargs=3, target=2, members=1)),
                 ("exh", dict(universe="classes", target=4, members=3)),
                 ("exh", dict(universe="ns", target=4, members=1))]
    else:
        plan += [("sim", dict(n=500, target=10))]
        plan += [("exh", dict(universe="types", typedepth=1, target=2, members=1, sample=3000)),
                 ("exh", dict(universe="sigs", maxargs=2, target=2, members=1, sample=1500)),
                 ("exh", dict(universe="classes", target=3, members=2, sample=1500)),
                 ("exh", dict(universe="ns", target=3, members=1))]
    universes = {}
    for kind, kw in plan:
        if kind == "sim":
            cs, r = cases.simulate(seed=rep.seed, **kw)
        else:
            sample = kw.pop("sample", None)
            cs, r = cases.exhaustive(**kw)
            universes[kw["universe"]] = {"terminal_states": len(cs), "exhaustive": sample is None or sample >= len(cs)}
            if sample is not None and len(cs) > sample:
                cs = rng.sample(cs, sample)
        rep.count("states", max(r.distinct, r.generated))
        rep.count("transitions", r.generated)
        allcases += cs
    # witnesses of the recorded findings are replayed on every run (they are derivations of the thorough universes)
    for f in common.load_findings()["findings"]:
        if f["property"] == PID and f.get("status", "open") == "open" and "case" in f:
            allcases.append({"origin": "finding:" + f["id"], "toks": f["case"]["toks"], "tree": f["case"]["tree"]})
    verdicts = common.pmap(pipeline.c01_case, allcases, chunksize=32)
    distinct = set()
    classes = classify_rejections([(c, v) for c, v in zip(allcases, verdicts) if v["clause"] == "wellformed-input-rejected"])
    for c, v in zip(allcases, verdicts):
        distinct.add(tuple(c["toks"]))
        if v["clause"]:
            rep.violation(v["clause"], classes.get(id(c), ""),
                          {"origin": v["origin"], "text": v["text"], "toks": c["toks"], "expected_tree": c["tree"],
                           "detail": v["detail"]})
    rep.count("traces_validated_against_impl", len(allcases))
    rep.count("evaluations", len(allcases))
    rep.cov["distinct_nontrivial"] = len(distinct)
    rep.cov["rule"] = ("one case = one interface file derived by IfaceDerive (random walk or terminal state of an "
                       "exhaustive universe); distinct = distinct token sequences; all have >= 1 declaration")
    rep.cov["universes"] = universes
    for c in allcases[:2] + allcases[-2:]:
        rep.sample({"origin": c["origin"], "text": " ".join(c["toks"])[:400]})
    # (V) fixtures through TLC
    validate_batch(fixture_batch(), rep, "fixture")
    rep.cov["checker_cmd"] = "tlc IfaceSim/IfaceExh (generation, invariants InvRender InvCount InvShape InvClosed); tlc IfaceTrace (Explains)"
    rep.assumptions += ["token->text layout writer (harness/layout.py) and the projection (harness/proj.py) are trusted",
                        "identifier and type pools of spec/IfaceSim.tla / IfaceExh.tla bound the explored inputs"]
    return rep.finish()


if __name__ == "__main__":
    try:
        sys.exit(main())
    except (tlc.TLCError, proj.ProjectionError, RuntimeError) as e:
        print("MACHINERY FAILURE: %s" % e, file=sys.stderr)
        sys.exit(2)
