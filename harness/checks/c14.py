"""C14 - generation is a pure, repeatable function of inputs and options.
spec/WrapperObject.tla (histories) and spec/Build.tla (processes sharing a build directory) are model-checked by TLC;
binding:
 (H) every history of <= 3 WrapFile steps over an alphabet of feature-bearing files is replayed on ONE PybindWrapper
     (serialization on, Doxygen XML attached) and each output compared with the output of a fresh wrapper;
 (R) run matrix: both scripts as subprocesses under PYTHONHASHSEED x LC_ALL x cwd, plus the in-process API: identical trees;
 (T) strace of both scripts: only declared outputs are created/written, nothing is unlinked/renamed/chmod-ed, nothing
     inside build / output / input / working directories is read except declared inputs and the template;
 (S) the recorded per-process file-system steps are loaded into Build.tla and TLC explores all their interleavings
     (SameAsSolo, OnlyDeclared); the same processes are also really run in parallel and compared with solo runs."""
import hashlib
import json
import os
import random
import re
import shutil
import subprocess
import sys
import tempfile

sys.path.insert(0, os.path.dirname(os.path.dirname(os.path.abspath(__file__))))
import cases  # noqa: E402
import common  # noqa: E402
import gen  # noqa: E402
import layout  # noqa: E402
import proj  # noqa: E402
import tlc  # noqa: E402

PID = "C14"
TPL = os.path.join(common.REPO, "templates", "pybind_wrapper.tpl.example")

FEATURE_FILES = [
    # functions in a namespace that closes early, keyword-named function
    "namespace a { void f(int x); void print(); } void lambda(double y = 1.0);\n",
    # class with print(), enums, overloads sharing parameter names (docstring counter)
    "class A { A(); void print() const; void f(int x); void f(double x); void f(int x, int y); enum Kind { K1, K2 }; };\n",
    # serialization
    "namespace gtsam { class S { S(); void serialize() const; void g() const; }; template<T={double, int}> class P { P(); void serializable() const; T get() const; }; }\n",
    # re-opened namespace, nested submodules, variable
    "namespace n1 { class B { B(); }; namespace n2 { enum E { X, Y }; } } namespace n1 { void h(); const double kV = 1.5; }\n",
]
DOXY_INDEX = '<?xml version="1.0"?><doxygenindex><compound refid="classA" kind="class"><name>A</name></compound></doxygenindex>'
DOXY_CLASS = ('<?xml version="1.0"?><doxygen><compounddef id="classA" kind="class"><compoundname>A</compoundname>'
              '<sectiondef kind="public-func">'
              '<memberdef kind="function" id="1"><name>f</name><argsstring>(int x)</argsstring><param><type>int</type><declname>x</declname></param><briefdescription><para>first f</para></briefdescription></memberdef>'
              '<memberdef kind="function" id="2"><name>f</name><argsstring>(double x)</argsstring><param><type>double</type><declname>x</declname></param><briefdescription><para>second f</para></briefdescription></memberdef>'
              '<memberdef kind="function" id="3"><name>print</name><argsstring>()</argsstring><briefdescription><para>prints</para></briefdescription></memberdef>'
              '</sectiondef></compounddef></doxygen>')


def sha_tree(tree):
    h = hashlib.sha256()
    for k in sorted(tree):
        h.update(k.encode())
        h.update(b"\0")
        h.update(tree[k].encode("utf-8", "replace") if isinstance(tree[k], str) else tree[k])
        h.update(b"\1")
    return h.hexdigest()


def history_job(item):
    hist, files, xmldir = item
    w = gen.PybindWrapper(module_name="mod", top_module_namespaces=[""], use_boost_serialization=True,
                          ignore_classes=[], module_template=gen.PYBIND_TPL, xml_source=xmldir)
    bad = []
    for step, k in enumerate(hist):
        try:
            got = ("ok", w.wrap_file(files[k], module_name="mod"))
        except Exception as e:  # noqa: BLE001
            got = ("exc", type(e).__name__ + ": " + str(e)[:200])
        f = gen.PybindWrapper(module_name="mod", top_module_namespaces=[""], use_boost_serialization=True,
                              ignore_classes=[], module_template=gen.PYBIND_TPL, xml_source=xmldir)
        try:
            want = ("ok", f.wrap_file(files[k], module_name="mod"))
        except Exception as e:  # noqa: BLE001
            want = ("exc", type(e).__name__ + ": " + str(e)[:200])
        if got != want:
            d = ""
            if got[0] == want[0] == "ok":
                for i, (a, b) in enumerate(zip(got[1], want[1])):
                    if a != b:
                        d = "used wrapper: ...%s...   fresh wrapper: ...%s..." % (got[1][max(0, i - 80):i + 80], want[1][max(0, i - 80):i + 80])
                        break
            else:
                d = "%s vs %s" % (got[:2], want[:2])
            bad.append(("wrapfile-output-depends-on-earlier-files", "",
                        {"history": [files[j] for j in hist[:step + 1]], "step": step + 1, "detail": d}))
            break
    return bad


def run_script(which, src, outdir, env_extra, cwd, strace_log=None, extra=()):
    env = dict(os.environ, PYTHONPATH=common.REPO)
    env.update(env_extra)
    if which == "pybind":
        cmd = ["/venv/bin/python", os.path.join(common.REPO, "scripts", "pybind_wrap.py"), "--src", src,
               "--module_name", "mymod", "--out", os.path.join(outdir, "mymod.cpp"), "--template", TPL,
               "--use-boost-serialization"] + list(extra)
    else:
        cmd = ["/venv/bin/python", os.path.join(common.REPO, "scripts", "matlab_wrap.py"), "--src", src,
               "--module_name", "mymod", "--out", outdir, "--use-boost-serialization"] + list(extra)
    if strace_log:
        cmd = ["strace", "-f", "-s", "0", "-o", strace_log, "-e",
               "trace=open,openat,creat,mkdir,mkdirat,unlink,unlinkat,rmdir,rename,renameat,renameat2,chmod,fchmodat,"
               "link,linkat,symlink,symlinkat,truncate,ftruncate,write,close"] + cmd
    p = subprocess.run(cmd, cwd=cwd, env=env, stdout=subprocess.PIPE, stderr=subprocess.PIPE, timeout=600)
    return p.returncode, p.stderr.decode("utf-8", "replace")[-300:]


def matrix_job(item):
    """one module through the run matrix -> list of (config, sha per generator)"""
    text, seed = item
    rng = random.Random(seed)
    tmp = tempfile.mkdtemp(prefix="c14m_")
    try:
        src = os.path.join(tmp, "in", "mymod.i")
        os.mkdir(os.path.join(tmp, "in"))
        with open(src, "w") as f:
            f.write(text)
        rows = []
        configs = [{"PYTHONHASHSEED": "0", "LC_ALL": "C"}, {"PYTHONHASHSEED": "1", "LC_ALL": "C.UTF-8"},
                   {"PYTHONHASHSEED": str(rng.randrange(2 ** 31)), "LC_ALL": "POSIX"},
                   {"PYTHONHASHSEED": "random", "LANG": "en_US.UTF-8", "LC_ALL": ""}]
        for i, cfg in enumerate(configs):
            for which in ("pybind", "matlab"):
                out = os.path.join(tmp, "o_%s_%d" % (which, i))
                os.mkdir(out)
                cwd = [tmp, "/", out][i % 3]
                rc, err = run_script(which, src, out, cfg, cwd)
                rows.append({"inputs": which, "config": "%s cwd=%s" % (cfg, "tmp / out".split(" ")[i % 3] if i % 3 < 3 else ""),
                             "rc": rc, "hash": sha_tree(gen.read_tree(out)) if rc == 0 else "failed:" + err[-80:]})
        # previous runs: the build directory already holds the (newer) output of an earlier run on OTHER inputs and
        # options; what this run is asked to produce must come out as in an empty directory
        prev = os.path.join(tmp, "in", "prev.i")
        with open(prev, "w") as f:
            f.write("class Prev { Prev(); void stale() const; };\n")
        for which in ("pybind", "matlab"):
            out = os.path.join(tmp, "o_prev_" + which)
            os.mkdir(out)
            rc0, err0 = run_script(which, prev, out, configs[0], tmp, extra=["--ignore", "Nothing"])
            rc, err = run_script(which, src, out, configs[0], tmp)
            tree = gen.read_tree(out)
            fresh = gen.read_tree(os.path.join(tmp, "o_%s_0" % which)) if os.path.isdir(os.path.join(tmp, "o_%s_0" % which)) else {}
            if which == "matlab":        # files of the earlier toolbox stay; only what this run produces is compared
                tree = {k: v for k, v in tree.items() if k in fresh}
            rows.append({"inputs": which, "config": "after an earlier run on other inputs in the same directory (rc %d)" % rc0,
                         "rc": rc, "hash": sha_tree(tree) if rc == 0 else "failed:" + err[-80:]})
        # a module split over three files (main + two additional ones): order of initialisers under every hash seed
        extra = []
        for k, body in enumerate(["namespace zz { class Q { Q(); }; }\n", "namespace aa { void g(); }\n", "class Wx { Wx(); };\n"]):
            p2 = os.path.join(tmp, "in", "extra%d_%s.i" % (k, "xyz"[k]))
            with open(p2, "w") as f:
                f.write(body)
            extra.append(p2)
        for i, cfg in enumerate(configs + [{"PYTHONHASHSEED": str(s_)} for s_ in (2, 3, 4, 5, 6, 7)]):
            out = os.path.join(tmp, "o_multi_%d" % i)
            os.mkdir(out)
            rc, err = run_script("pybind", ";".join([src] + extra), out, cfg, tmp)
            rows.append({"inputs": "pybind-multi", "config": str(cfg), "rc": rc,
                         "hash": sha_tree(gen.read_tree(out)) if rc == 0 else "failed:" + err[-80:]})
        # the API in this process, twice (repeatability within a process)
        for rep in range(2):
            r = gen.pybind_text(text, module_name="mymod", ser=True, submodules=[])
            rows.append({"inputs": "pybind", "config": "api in-process #%d" % rep, "rc": 0 if r[0] == "ok" else 1,
                         "hash": sha_tree({"mymod.cpp": r[1]}) if r[0] == "ok" else "failed:" + str(r[1:3])[-80:]})
            m = gen.matlab_files([text], module_name="mymod", ser=True)
            rows.append({"inputs": "matlab", "config": "api in-process #%d" % rep, "rc": 0 if m[0] == "ok" else 1,
                         "hash": sha_tree(m[1]) if m[0] == "ok" else "failed:" + str(m[1:3])[-80:]})
        return text, rows
    finally:
        shutil.rmtree(tmp, ignore_errors=True)


SYSCALL = re.compile(r"^(\d+)\s+(\w+)\((.*)\)\s+=\s+(-?\d+|\?)(?:\s+(\w+))?")


def parse_strace(path):
    """-> list of (pid, call, args text, result int, errno name)"""
    out = []
    with open(path, errors="replace") as f:
        for line in f:
            if "<unfinished" in line or "resumed>" in line or line.startswith("+++") or "---" in line[:12]:
                if "<unfinished" in line or "resumed>" in line:
                    out.append(("?", "unfinished", line.strip(), 0, ""))
                continue
            m = SYSCALL.match(line)
            if not m:
                continue
            pid, call, args, res, err = m.groups()
            out.append((pid, call, args, -1 if res == "?" else int(res), err or ""))
    return out


def fs_steps(events, roots):
    """reduce strace events to the steps of the Build model + the list of anomalies.
    roots: dict(build=..., outputs=set of allowed path prefixes, inputs=set of files, cwd=...)"""
    fd = {}
    steps, anomalies, reads = [], [], []
    wcount = 0

    def first_path(args):
        m = re.search(r'"((?:[^"\\]|\\.)*)"', args)
        return m.group(1) if m else ""
    for pid, call, args, res, err in events:
        if call == "unfinished":
            anomalies.append("interleaved strace record (cannot be attributed): " + args[:100])
            continue
        if call in ("open", "openat", "creat"):
            p = first_path(args)
            if not p.startswith("/"):
                p = os.path.normpath(os.path.join(roots["cwd"], p))
            writing = "O_WRONLY" in args or "O_RDWR" in args or call == "creat" or "O_CREAT" in args
            if res >= 0:
                fd[(pid, res)] = (p, writing)
            if writing:
                if res >= 0:
                    if not ("O_TRUNC" in args or call == "creat") and "O_APPEND" not in args and p.startswith(roots["build"]):
                        anomalies.append("opened for writing without O_TRUNC: " + p)
                    if p.startswith(roots["build"]):
                        steps.append({"op": "open", "path": p})
            elif res >= 0 and (p.startswith(roots["build"])) and not os.path.isdir(p):
                reads.append(p)
        elif call == "write":
            m = re.match(r"(\d+),", args)
            k = (pid, int(m.group(1))) if m else None
            if k in fd and fd[k][1] and fd[k][0].startswith(roots["build"]):
                wcount += 1
                steps.append({"op": "write", "path": fd[k][0], "data": "w%d" % wcount})
        elif call == "close":
            m = re.match(r"(\d+)", args)
            k = (pid, int(m.group(1))) if m else None
            if k in fd:
                if fd[k][1] and fd[k][0].startswith(roots["build"]):
                    steps.append({"op": "close", "path": fd[k][0]})
                del fd[k]
        elif call in ("mkdir", "mkdirat"):
            p = first_path(args)
            if not p.startswith("/"):
                p = os.path.normpath(os.path.join(roots["cwd"], p))
            if p.startswith(roots["build"]) or res >= 0:
                if res >= 0 or err == "EEXIST":
                    steps.append({"op": "mkdir", "path": p})
                else:
                    anomalies.append("mkdir failed with %s: %s" % (err, p))
        elif call in ("unlink", "unlinkat", "rmdir", "rename", "renameat", "renameat2", "chmod", "fchmodat", "link",
                      "linkat", "symlink", "symlinkat", "truncate", "ftruncate"):
            p = first_path(args)
            if res >= 0 and "__pycache__" not in p and ".pyc" not in args:
                anomalies.append("%s(%s)" % (call, args[:120]))
    return steps, anomalies, reads


def main():
    rep = common.Report(PID, "model_checking")
    rng = random.Random(rep.seed)
    thorough = rep.tier == "thorough"
    # ---- (H) histories
    r0 = tlc.run("WrapperObject", "WrapperObject.cfg", workers=2, timeout=300)
    rep.count("states", r0.distinct)
    rep.count("transitions", r0.generated)
    if thorough:
        # the same machine over six files and histories of six calls
        rd = tlc.run("WrapperObject", cfg_text='SPECIFICATION Spec\nCONSTANTS\n  Files = {"f1", "f2", "f3", "f4", "f5", "f6"}\n'
                     '  MaxLen = 6\n  Leaks = FALSE\nINVARIANT HistoryIndependent\nCHECK_DEADLOCK FALSE\n',
                     workers=common.NCPU, timeout=900)
        rep.count("states", rd.distinct)
        rep.count("transitions", rd.generated)
        rep.cov["history_model_deep"] = {"distinct_states": rd.distinct, "depth": rd.depth}
    xmldir = tempfile.mkdtemp(prefix="c14xml_")
    tmproot = tempfile.mkdtemp(prefix="c14_")
    try:
        with open(os.path.join(xmldir, "index.xml"), "w") as f:
            f.write(DOXY_INDEX)
        with open(os.path.join(xmldir, "classA.xml"), "w") as f:
            f.write(DOXY_CLASS)
        alphabets = [FEATURE_FILES]
        sims, rs = cases.simulate(n=120 if thorough else 24, seed=rep.seed, target=7)
        rep.count("states", rs.generated)
        rep.count("transitions", rs.generated)
        texts = [layout.render(c["toks"]) for c in sims]
        for k in range(0, len(texts) - 3, 4):
            alphabets.append(texts[k:k + 4])
        hjobs = []
        for files in alphabets:
            for n in (1, 2, 3):
                import itertools
                for hist in itertools.product(range(len(files)), repeat=n):
                    hjobs.append((hist, files, xmldir))
        if not thorough and len(hjobs) > 340:
            hjobs = hjobs[:84] + rng.sample(hjobs[84:], 256)
        for bad in common.pmap(history_job, hjobs, chunksize=4):
            for clause, cls, wit in bad:
                rep.violation(clause, cls, wit)
        # ---- (R) run matrix
        mtexts = FEATURE_FILES[:2] + [t for t in texts if gen.pybind_text(t)[0] == "ok"][:(20 if thorough else 3)]
        rows_all = []
        for text, rows in common.pmap(matrix_job, [(t, rep.seed + i) for i, t in enumerate(mtexts)], chunksize=1):
            for r in rows:
                r["inputs"] = hashlib.sha256(text.encode()).hexdigest()[:10] + ":" + r["inputs"]
            rows_all += rows
        groups = {}
        for r in rows_all:
            groups.setdefault(r["inputs"], []).append(r)
        for key, rs_ in groups.items():
            hashes = {r["hash"] for r in rs_}
            if len(hashes) > 1:
                rep.violation("same-inputs-different-outputs", "", {"inputs": key, "rows": rs_})
        # ---- (T) strace + (S) schedules
        build = os.path.join(tmproot, "build")
        os.makedirs(os.path.join(build, "in"))
        srcs = []
        for i, t in enumerate(FEATURE_FILES[:3]):
            p = os.path.join(build, "in", "m%d.i" % i)
            with open(p, "w") as f:
                f.write(t)
            srcs.append(p)
        procs = [("pybind", srcs[0], os.path.join(build, "py_a")), ("pybind", srcs[1], os.path.join(build, "py_b")),
                 ("matlab", srcs[2], os.path.join(build, "toolbox"))]
        progs, declared, solo = [], [], []
        for i, (which, src, out) in enumerate(procs):
            os.makedirs(out, exist_ok=True)
            log = os.path.join(tmproot, "strace%d.log" % i)
            rc, err = run_script(which, src, out, {"PYTHONHASHSEED": "0"}, build, strace_log=log)
            if rc != 0:
                raise RuntimeError("traced script failed: %s" % err)
            steps, anomalies, reads = fs_steps(parse_strace(log), {"build": build, "cwd": build})
            allowed = out
            for s in steps:
                if not (s["path"] == allowed or s["path"].startswith(allowed + os.sep)):
                    rep.violation("writes-outside-declared-outputs", "", {"process": which, "step": s})
            for a in anomalies:
                rep.violation("forbidden-file-system-operation", "", {"process": which, "what": a})
            for p in reads:
                if p != src:
                    rep.violation("reads-undeclared-file-in-build-directory", "", {"process": which, "path": p})
            if not any(s["op"] == "write" for s in steps):
                raise RuntimeError("strace shows no write for %s: tracing is not working" % which)
            progs.append(steps)
            declared.append(sorted({s["path"] for s in steps}))
            solo.append(gen.read_tree(out))
            shutil.rmtree(out)
        # compress write runs (many write() calls on one file between open and close commute with nothing else on
        # that path) so that the interleaving model stays small: keep at most 2 writes per file
        small = []
        for steps in progs:
            cnt, keep = {}, []
            for s in steps:
                if s["op"] == "write":
                    cnt[s["path"]] = cnt.get(s["path"], 0) + 1
                    if cnt[s["path"]] > 2:
                        continue
                keep.append(s)
            # and at most 4 files per process
            files_ = []
            for s in keep:
                if s["op"] == "open" and s["path"] not in files_:
                    files_.append(s["path"])
            allowed_files = set(files_[:3])
            keep = [s for s in keep if s["op"] == "mkdir" or s["path"] in allowed_files]
            mk = [s for s in keep if s["op"] == "mkdir"][:3]
            keep = [s for s in keep if s["op"] != "mkdir" or s in mk]
            small.append(keep)
        def tla(v):
            if isinstance(v, dict):
                return "[" + ", ".join("%s |-> %s" % (k, tla(x)) for k, x in sorted(v.items())) + "]"
            if isinstance(v, (list, tuple)):
                return "<<" + ", ".join(tla(x) for x in v) + ">>"
            return json.dumps(v)
        for s in sum(small, []):
            s.setdefault("data", "")
        mod = "---- MODULE BuildMC ----\nEXTENDS Build\nMCProgs == %s\nMCDeclared == %s\n====\n" % (
            tla(small), "<<" + ", ".join("{" + ", ".join(json.dumps(p) for p in d) + "}" for d in declared) + ">>")
        specdir = tempfile.mkdtemp(prefix="c14spec_")
        try:
            for fn in ("Build.tla",):
                shutil.copy(os.path.join(tlc.SPEC_DIR, fn), specdir)
            with open(os.path.join(specdir, "BuildMC.tla"), "w") as f:
                f.write(mod)
            cfg = "SPECIFICATION Spec\nCONSTANTS\n  Progs <- MCProgs\n  Declared <- MCDeclared\nINVARIANT SameAsSolo\nINVARIANT OnlyDeclared\nCHECK_DEADLOCK FALSE\n"
            rb = tlc.run("BuildMC", cfg_text=cfg, workers=common.NCPU, timeout=900, spec_dir=specdir)
        finally:
            shutil.rmtree(specdir, ignore_errors=True)
        rep.count("states", rb.distinct)
        rep.count("transitions", rb.generated)
        rep.cov["interleaving_model"] = {"processes": len(small), "steps": [len(x) for x in small], "distinct_states": rb.distinct}
        # real parallel runs, several rounds
        for rnd in range(6 if thorough else 2):
            ps = []
            for i, (which, src, out) in enumerate(procs * 2):
                out2 = out + ("_x" if i >= len(procs) else "")
                os.makedirs(out2, exist_ok=True)
                env = dict(os.environ, PYTHONPATH=common.REPO, PYTHONHASHSEED=str(rnd))
                if which == "pybind":
                    cmd = ["/venv/bin/python", os.path.join(common.REPO, "scripts", "pybind_wrap.py"), "--src", src,
                           "--module_name", "mymod", "--out", os.path.join(out2, "mymod.cpp"), "--template", TPL,
                           "--use-boost-serialization"]
                else:
                    cmd = ["/venv/bin/python", os.path.join(common.REPO, "scripts", "matlab_wrap.py"), "--src", src,
                           "--module_name", "mymod", "--out", out2, "--use-boost-serialization"]
                ps.append((i, out2, subprocess.Popen(cmd, cwd=build, env=env, stdout=subprocess.DEVNULL, stderr=subprocess.PIPE)))
            for i, out2, p in ps:
                p.wait(timeout=600)
                got = gen.read_tree(out2)
                if p.returncode != 0 or got != solo[i % len(procs)]:
                    rep.violation("parallel-run-differs-from-solo-run", "", {"process": procs[i % len(procs)][0], "rc": p.returncode,
                                                                             "files": sorted(got)})
                shutil.rmtree(out2, ignore_errors=True)
    finally:
        shutil.rmtree(xmldir, ignore_errors=True)
        shutil.rmtree(tmproot, ignore_errors=True)
    rep.count("traces_validated_against_impl", len(hjobs) + len(rows_all) + 3)
    rep.count("evaluations", len(hjobs) + len(rows_all) + 3)
    rep.cov["distinct_nontrivial"] = len(hjobs) + len(groups)
    rep.cov["histories_replayed"] = len(hjobs)
    rep.cov["run_matrix_rows"] = len(rows_all)
    rep.cov["straced_processes"] = 3
    rep.cov["rule"] = "history = sequence of <= 3 wrap_file calls on one wrapper; matrix row = one run of one generator under one environment"
    rep.sample({"history_alphabet": FEATURE_FILES})
    rep.assumptions += ["MatlabWrapper objects are single-use (wrap is called once by the script): no MATLAB histories",
                        "strace -f sees every file-system call of the wrapper processes"]
    return rep.finish()


if __name__ == "__main__":
    try:
        sys.exit(main())
    except (tlc.TLCError, proj.ProjectionError, RuntimeError) as e:
        print("MACHINERY FAILURE: %s" % e, file=sys.stderr)
        sys.exit(2)
