"""C12 - layout and comments never change the result.
spec/Layout.tla states it: Relayout is a stuttering step on every observable (TLC-checked on the model).
Binding (G): for derivations of IfaceDerive and for the fixtures, Relayout steps are replayed into the
implementation: (a) gap-exhaustive - every gap gets a non-canonical trivia, one gap at a time, the parse result must
stay the spec's tree; (b) all gaps at once with random trivia - parse result, wrap_file text and MATLAB file tree must
be byte-identical to those of the canonical layout."""
import glob
import os
import random
import sys

sys.path.insert(0, os.path.dirname(os.path.dirname(os.path.abspath(__file__))))
import cases  # noqa: E402
import common  # noqa: E402
import gen  # noqa: E402
import layout  # noqa: E402
import lexer  # noqa: E402
import pipeline  # noqa: E402
import proj  # noqa: E402
import tlc  # noqa: E402

PID = "C12"
KNOWN_TAGS = {"inside-multiword-keyword": "GapInsideMultiWordKeyword", "std::pair": "GapInsideStdPair"}


def observe_tree(text):
    r = pipeline.parse_text(text)
    if r[0] != "ok":
        return ("reject", r[1], r[2])
    return ("ok", proj.proj_tree(r[1]))


def single_gap_job(job):
    """All single-gap relayouts of one module.  job = (origin, toks, expected tree or None, seed)."""
    origin, toks, expected, seed = job
    rng = random.Random(seed)
    base_gaps = layout.canonical_gaps(toks)
    base = observe_tree(layout.render(toks, base_gaps))
    out = {"origin": origin, "n": 0, "bad": []}
    if base[0] != "ok":
        out["bad"].append(("canonical-layout-rejected", "", {"detail": base[1:], "gap": -1}))
        return out
    if expected is not None and proj.diff(expected, base[1]):
        out["bad"].append(("canonical-layout-tree-differs", "", {"detail": proj.diff(expected, base[1]), "gap": -1}))
        return out
    tags = layout.gap_tags(toks)
    k0 = rng.randrange(len(layout.TRIVIA))
    for g in range(len(toks) + 1):
        for rep in range(1):
            triv = layout.TRIVIA[(k0 + g + rep * 5) % len(layout.TRIVIA)]
            if triv == base_gaps[g]:
                triv = layout.TRIVIA[(k0 + g + 1) % len(layout.TRIVIA)]
            gaps = list(base_gaps)
            gaps[g] = triv
            text = layout.render(toks, gaps)
            ob = observe_tree(text)
            out["n"] += 1
            if ob != base:
                cls = KNOWN_TAGS.get(tags.get(g, ""), "")
                if tags.get(g) == "after-default-value" and triv.startswith("/"):
                    cls = "CommentGluedToDefaultValue"
                out["bad"].append(("single-gap-relayout-changes-parse", cls,
                                   {"gap": g, "between": toks[max(0, g - 2):g + 2], "trivia": triv,
                                    "detail": ob[1:] if ob[0] != "ok" else proj.diff(base[1], ob[1]),
                                    "text": text}))
    return out


def all_gaps_job(job):
    """Random trivia in (almost) all gaps at once; compare parse tree and both generators' outputs."""
    origin, toks, seed, with_generators = job
    rng = random.Random(seed)
    base_gaps = layout.canonical_gaps(toks)
    tags = layout.gap_tags(toks)
    gaps = layout.random_gaps(toks, rng, density=0.7)
    for g, tag in tags.items():
        if tag in KNOWN_TAGS:           # those gaps are judged one at a time by single_gap_job
            gaps[g] = base_gaps[g]
        if tag == "after-default-value" and gaps[g].startswith("/"):
            gaps[g] = " " + gaps[g]     # a comment glued to a default value is judged by single_gap_job
    t0 = layout.render(toks, base_gaps)
    t1 = layout.render(toks, gaps)
    out = {"origin": origin, "bad": [], "n": 1}
    a, b = observe_tree(t0), observe_tree(t1)
    if a != b:
        out["bad"].append(("relayout-changes-parse", "", {"text": t1, "detail": str(b[1:])[:300] if b[0] != "ok"
                                                          else proj.diff(a[1], b[1])}))
        return out
    if with_generators and a[0] == "ok":
        pa, pb = gen.pybind_text(t0), gen.pybind_text(t1)
        if pa[:3] != pb[:3]:
            out["bad"].append(("relayout-changes-pybind-output", "", {"text": t1, "a": str(pa[:3])[:600],
                                                                      "b": str(pb[:3])[:600]}))
        ma, mb = gen.matlab_files([t0]), gen.matlab_files([t1])
        if ma[:3] != mb[:3]:
            out["bad"].append(("relayout-changes-matlab-output", "", {"text": t1, "a": str(ma[:3])[:600],
                                                                      "b": str(mb[:3])[:600]}))
    return out


def main():
    rep = common.Report(PID, "model_checking")
    thorough = rep.tier == "thorough"
    # the property on the model
    r = tlc.run("Layout", "Layout.cfg", workers=4, timeout=600)
    rep.count("states", r.distinct)
    rep.count("transitions", r.generated)
    # behaviours to replay
    cs, r2 = cases.simulate(n=400 if thorough else 28, seed=rep.seed, target=8 if not thorough else 10)
    rep.count("states", r2.generated)
    rep.count("transitions", r2.generated)
    exh, r3 = cases.exhaustive("classes", target=3, members=2)
    rng = random.Random(rep.seed)
    exh = rng.sample(exh, 300 if thorough else 24)
    tjobs, r4 = cases.exhaustive("types", typedepth=1, target=2, members=1)
    tjobs = rng.sample(tjobs, 1500 if thorough else 100)
    jobs = [(c["origin"], c["toks"], c["tree"], rep.seed + i) for i, c in enumerate(cs + exh + tjobs)]
    fixtures = []
    for f in sorted(glob.glob(os.path.join(common.REPO, "tests", "fixtures", "*.i"))):
        with open(f) as fh:
            toks = lexer.lex(fh.read())
        fixtures.append((os.path.basename(f), toks))
    if not thorough:
        fixtures = [x for x in fixtures if len(x[1]) < 260]
    jobs += [(name, toks, None, rep.seed) for name, toks in fixtures]
    res = common.pmap(single_gap_job, jobs, chunksize=1)
    nsingle = 0
    for o in res:
        nsingle += o["n"]
        for clause, cls, wit in o["bad"]:
            wit["origin"] = o["origin"]
            rep.violation(clause, cls, wit)
    jobs2 = []
    for k in range(6 if thorough else 2):
        jobs2 += [(c["origin"], c["toks"], rep.seed * 1000 + k, True) for c in cs + exh]
        jobs2 += [(name, toks, rep.seed * 1000 + k, True) for name, toks in fixtures]
    res2 = common.pmap(all_gaps_job, jobs2, chunksize=2)
    for o in res2:
        for clause, cls, wit in o["bad"]:
            wit["origin"] = o["origin"]
            rep.violation(clause, cls, wit)
    rep.count("traces_validated_against_impl", nsingle + len(jobs2))
    rep.count("evaluations", nsingle + len(jobs2))
    rep.cov["distinct_nontrivial"] = nsingle + len(jobs2)
    rep.cov["single_gap_relayouts"] = nsingle
    rep.cov["all_gap_relayouts_with_generator_comparison"] = len(jobs2)
    rep.cov["modules"] = len(jobs)
    rep.cov["rule"] = "one evaluation = one Relayout step replayed (distinct (module, gap, trivia) or (module, seed))"
    rep.sample({"module": " ".join(jobs[0][1])[:300], "trivia_pool": layout.TRIVIA})
    rep.assumptions += ["trivia pool of harness/layout.py (whitespace, newlines, C and C++ comments with braces, "
                        "semicolons, quotes, keywords)", "tokens are C++-lexical tokens; defaults are opaque tokens"]
    return rep.finish()


if __name__ == "__main__":
    try:
        sys.exit(main())
    except (tlc.TLCError, proj.ProjectionError, RuntimeError) as e:
        print("MACHINERY FAILURE: %s" % e, file=sys.stderr)
        sys.exit(2)
