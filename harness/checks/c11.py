"""C11 - MEX gateway calls reach the right C++ code and never leak or double-free.
spec/MexSession.tla models a MATLAB session over the generated gateway of harness/mexmock/session/session1.i: objects,
MATLAB handles, one collector entry (heap shared_ptr) per inheritance level of each handle, the exit function; TLC checks
the ownership invariants in every state of every explored session and emits the sessions with, per step, the expected
gateway result, library call (entity + argument values incl. omitted defaults), live objects and collector sizes.
Binding: the REAL generated <module>_wrapper.cpp is compiled with the real matlab.h against a mock MEX API and an
instrumented library, the MATLAB side (constructor frames, base chaining, per-level delete, overload selection) is
emulated from the scanned .m files, and every TLC session is replayed step by step; an AddressSanitizer build replays a
share of them.  The Unload-then-Delete hazard is produced by TLC as a counterexample and confirmed under ASan."""
import json
import os
import random
import shutil
import sys
import tempfile

sys.path.insert(0, os.path.dirname(os.path.dirname(os.path.abspath(__file__))))
sys.path.insert(0, os.path.dirname(os.path.abspath(__file__)))
import common  # noqa: E402
import mexsession  # noqa: E402
import proj  # noqa: E402
import tlc  # noqa: E402

PID = "C11"
SESSION_DIR = os.path.join(mexsession.MOCK, "session")
CFG = """SPECIFICATION Spec
CONSTANTS
  MaxSteps = {steps}
  MaxObjs = {objs}
  Exhaustive = {exh}
INVARIANT OneEntryPerLevel
INVARIANT NoOrphanEntries
INVARIANT HandlesKeepAlive
INVARIANT UnloadFreesAll
INVARIANT Emit
CHECK_DEADLOCK FALSE
"""
HAZARD_CFG = """SPECIFICATION HazardSpec
CONSTANTS
  MaxSteps = 3
  MaxObjs = 1
  Exhaustive = TRUE
INVARIANT NoDoubleFree
CHECK_DEADLOCK FALSE
"""


def command(ev):
    c = ev["cmd"]
    return " ".join(c)


def replay(item):
    exe, table, sess = item
    cmds = [command(e) for e in sess["trace"]]
    out, err, rc = mexsession.run(exe, table, cmds)
    bad = []
    if "ERROR: AddressSanitizer" in err:
        bad.append(("address-sanitizer-report", "", {"session": cmds, "stderr": err[-1500:]}))
        return bad
    if rc != 0 or len(out) != len(cmds):
        bad.append(("gateway-crashed", "", {"session": cmds, "rc": rc, "stderr": err[-800:], "completed": len(out)}))
        return bad
    addr_of = {}      # model object id -> address
    for k, (ev, snap, o) in enumerate(zip(sess["trace"], sess["snaps"], out)):
        def fail(clause, detail):
            bad.append((clause, "", {"session": cmds[:k + 1], "step": cmds[k], "detail": detail, "observed": o["raw"]}))
        if o["status"] != "R":
            fail("gateway-call-fails", o["result"])
            break
        want = ev["result"]
        got = o["result"]
        if want.startswith("obj:"):
            parts = got.split(":")
            if ":".join(parts[:3]) != want:
                fail("wrong-result", "expected %s" % want)
                break
            addr = parts[3] if len(parts) > 3 else "?"
            oid = ev["newobj"]
            alive_before = set(sess["snaps"][k - 1]["alive"]) if k > 0 else set()
            if oid in addr_of and oid in alive_before:
                if addr_of[oid] != addr:
                    fail("handle-designates-other-object", "object %s is at %s, handle points to %s" % (oid, addr_of[oid], addr))
                    break
            else:
                clash = [x for x, a in addr_of.items() if a == addr and x in alive_before and x != oid]
                if clash:
                    fail("new-object-aliases-live-object", "address %s belongs to live object %s" % (addr, clash))
                    break
                addr_of[oid] = addr
        elif got != want:
            fail("wrong-result", "expected %r" % want)
            break
        if o["G"] != ev["log"]:
            fail("wrong-c++-entity-or-arguments", "expected library calls %s" % ev["log"])
            break
        live = {c: int(o["L"].get(c, 0)) for c in ("Base", "Mid", "Leaf", "Other", "Inner")}
        if live != snap["live"]:
            fail("live-objects-differ-from-model", "expected %s" % snap["live"])
            break
        coll = {("ns.Inner" if c == "nsInner" else c): int(n) for c, n in o["C"].items()}
        if coll != snap["coll"]:
            fail("collector-entries-differ-from-model", "expected %s" % snap["coll"])
            break
    return bad


def static_pass(rep, thorough):
    """'for all generated gateways': the unload routine of every generated gateway of the derived modules must free
    every collector (clause C11:* of MexTrace; generated text scanned, expectation computed by TLC from the instantiated tree)."""
    import glob
    import c05
    import cases
    import layout
    import mexcheck
    rng = random.Random(rep.seed + 7)
    plan = [("sim", dict(n=1500 if thorough else 150, target=10)),
            ("exh", dict(universe="classes", target=4, members=3, sample=2000 if thorough else 150)),
            ("exh", dict(universe="ns", target=4, members=1, sample=2000 if thorough else 150, pairs=True)),
            ("exh", dict(universe="inst", target=40, maxitems=2, sample=None if thorough else 100))]
    allcases = []
    for kind, kw in plan:
        if kind == "sim":
            cs, r = cases.simulate(seed=rep.seed, **kw)
        else:
            sample = kw.pop("sample", None)
            pairs = kw.pop("pairs", False)
            cs, r = cases.exhaustive(**kw)
            if sample is not None and len(cs) > sample:
                cs = common.cover_pairs(cs, rng, sample) if pairs else rng.sample(cs, sample)
        rep.count("states", max(r.distinct, r.generated))
        rep.count("transitions", r.generated)
        allcases += [(c["origin"], layout.render(c["toks"])) for c in cs]
    for f in sorted(glob.glob(os.path.join(common.REPO, "tests", "fixtures", "*.i"))):
        with open(f) as fh:
            allcases.append((os.path.basename(f), fh.read()))
    items = [("g%d" % i, origin, text, rep.seed * 100003 + i, 1) for i, (origin, text) in enumerate(allcases)]
    batch, meta = [], {}
    for lst in common.pmap(c05.job, items, chunksize=4):
        for oid, origin, text, opts, ob in lst:
            if ob["outcome"] == "ok" and c05.unique_artefacts(ob["inst"]):
                meta[oid] = (origin, text, opts)
                batch.append({"id": oid, "inst": ob["inst"], "opts": opts, "files": ob["files"], "cpp": ob["cpp"], "ncpp": ob["ncpp"]})
    ncoll = 0
    for k in range(0, len(batch), 300):
        verdicts, r = mexcheck.validate(batch[k:k + 300])
        rep.count("states", r.distinct)
        rep.count("transitions", r.generated)
        for b in batch[k:k + 300]:
            ncoll += len(b["cpp"]["collectors"]) if b["cpp"] else 0
            for clause in verdicts[b["id"]]:
                body, _, cls = clause.partition("/")
                if body.startswith("C11:"):
                    origin, text, opts = meta[b["id"]]
                    rep.violation(body, cls, {"origin": origin, "text": text, "opts": opts})
    rep.cov["gateways_whose_unload_routine_was_validated"] = len(batch)
    rep.cov["collectors_in_those_gateways"] = ncoll
    rep.count("evaluations", len(batch))


def main():
    rep = common.Report(PID, "model_checking")
    thorough = rep.tier == "thorough"
    # the hazard counterexample of the model
    rh = tlc.run("MexSession", cfg_text=HAZARD_CFG, workers=4, timeout=600, allow_violation=True)
    hazard_in_model = rh.violation is not None and "NoDoubleFree" in rh.violation
    rep.count("states", rh.distinct)
    rep.count("transitions", rh.generated)
    # sessions
    sessions = []
    seen = set()
    for k, (n, steps, objs) in enumerate([(1500 if thorough else 120, 14, 6), (500 if thorough else 30, 24, 8)]):
        r = tlc.run("MexSession", cfg_text=CFG.format(steps=steps, objs=objs, exh="FALSE"), simulate=n, depth=steps + 6,
                    seed=rep.seed + k, workers=1, timeout=1200)
        rep.count("states", r.generated)
        rep.count("transitions", r.generated)
        for t in r.by_tag("SESSION"):
            if t[1] not in seen:
                seen.add(t[1])
                sessions.append(json.loads(t[1]))
    # bounded exhaustive exploration of short sessions (all choices)
    rx = tlc.run("MexSession", cfg_text=CFG.format(steps=2 if not thorough else 3, objs=2, exh="TRUE"), workers=common.NCPU, timeout=1500)
    rep.count("states", rx.distinct)
    rep.count("transitions", rx.generated)
    nexh = 0
    for t in rx.by_tag("SESSION"):
        if t[1] not in seen:
            seen.add(t[1])
            sessions.append(json.loads(t[1]))
            nexh += 1
    with open(os.path.join(SESSION_DIR, "session1.i")) as f:
        text = f.read()
    work = tempfile.mkdtemp(prefix="c11_")
    try:
        lib = os.path.join(SESSION_DIR, "session1_lib.h")
        try:
            exe, table, scans = mexsession.build(work, text, lib)
            asan_dir = os.path.join(work, "asan")
            os.mkdir(asan_dir)
            exe_asan, table2, _ = mexsession.build(asan_dir, text, lib, sanitize=True)
        except RuntimeError as e:
            rep.violation("generated-gateway-does-not-build", "", {"detail": str(e)[-2500:]})
            return rep.finish()
        res = common.pmap(replay, [(exe, table, s) for s in sessions], chunksize=4)
        rng = random.Random(rep.seed)
        sub = rng.sample(sessions, min(len(sessions), 400 if thorough else 40))
        res += common.pmap(replay, [(exe_asan, table2, s) for s in sub], chunksize=2)
        for bad in res:
            for clause, cls, wit in bad:
                rep.violation(clause, cls, wit)
        # the hazard on the real gateway
        out, err, rc = mexsession.run(exe_asan, table2, ["new a Base", "unload", "del a"])
        hazard_real = "ERROR: AddressSanitizer" in err
        if hazard_real:
            rep.violation("address-sanitizer-report", "DeleteAfterUnloadUsesFreedPointer" if hazard_in_model else "",
                          {"session": ["new a Base", "unload", "del a"], "stderr": err[-600:],
                           "model_counterexample": rh.violation})
    finally:
        shutil.rmtree(work, ignore_errors=True)
    static_pass(rep, thorough)
    # generated gateways of the 'mexcall' profile executed through PyCall session plans: no crash, and every collector is
    # empty once the last handle is deleted (clauses C11:* of harness/mexcallcheck.py)
    import mexcallcheck
    mexcallcheck.run(rep, thorough, "C11")
    nsteps = sum(len(s["trace"]) for s in sessions)
    rep.count("traces_validated_against_impl", len(sessions) + len(sub))
    rep.count("evaluations", len(sessions) + len(sub))
    rep.cov["gateway_calls_replayed"] = nsteps
    rep.cov["sessions"] = len(sessions)
    rep.cov["sessions_from_exhaustive_short_model"] = nexh
    rep.cov["sessions_under_address_sanitizer"] = len(sub)
    rep.cov["hazard"] = {"model_counterexample": hazard_in_model, "asan_confirms": hazard_real}
    rep.cov["distinct_nontrivial"] = len(sessions)
    rep.cov["rule"] = "one session = one TLC behaviour of MexSession (distinct command sequences), replayed step by step"
    if sessions:
        rep.sample({"session": [command(e) for e in sessions[0]["trace"]]})
    rep.assumptions += ["one gateway (harness/mexmock/session/session1.i) with a hand-written instrumented library; MATLAB is "
                        "emulated from the scanned .m files (constructor frames, base chaining, per-level delete, guards)",
                        "MATLAB handle copies are references (handle classes), not modelled separately"]
    return rep.finish()


if __name__ == "__main__":
    try:
        sys.exit(main())
    except (tlc.TLCError, proj.ProjectionError, RuntimeError) as e:
        print("MACHINERY FAILURE: %s" % e, file=sys.stderr)
        sys.exit(2)
