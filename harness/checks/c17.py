"""C17 - embedded docstrings are the right text, correctly escaped, change nothing else.
spec/DocString.tla: lookup machine with the per-key overload counter, Embed (the repr-based literal) and Decode (C++17).
TLC (DocStringMC) explores every lookup sequence over a small Doxygen model and every text of length <= 3 over a
hostile alphabet: a text round-trips iff it is not one of the analysed deviations.
Binding: Doxygen situations (index / class / class file present, missing, malformed; members with equal / different /
missing parameter names, optional parameters, documented or not; overloads with identical names) are materialised as
XML trees, the interface is wrapped with xml_source (once, and twice on the same wrapper), every binding's literal is
compared with Embed(text of the member Docs selects) as computed by TLC (DocTrace); the code without XML must be
identical apart from the literals; a sample of literals is compiled and the program's bytes compared with the text."""
import json
import os
import random
import shutil
import subprocess
import sys
import tempfile
from xml.sax.saxutils import escape

sys.path.insert(0, os.path.dirname(os.path.dirname(os.path.abspath(__file__))))
import common  # noqa: E402
import gen  # noqa: E402
import proj  # noqa: E402
import proj_py  # noqa: E402
import pycheck  # noqa: E402
import tlc  # noqa: E402

PID = "C17"
ALPHABET = [34, 39, 92, 10, 9, 127, 97, 102, 48, 63, 233, 133, 8232, 128512, 120]
ARGNAMES = ["x", "y", "key", "value"]


def rand_text(rng, maxlen=4, minlen=0):
    return [77] + [rng.choice(ALPHABET) for _ in range(rng.randint(minlen, maxlen))] + [46]     # 'M' ... '.'


def situation(rng, k, long=False):
    """one Doxygen situation + the interface class it documents"""
    methods = []       # interface: name, args
    members = []       # XML
    names = ["f", "g", "h"]
    for name in names[:rng.randint(1, 3)]:
        novl = rng.choice([1, 1, 2, 3])
        same_names = rng.random() < 0.5
        base_args = rng.sample(ARGNAMES, rng.randint(0, 2))
        for o in range(novl):
            args = list(base_args) if same_names else rng.sample(ARGNAMES, rng.randint(0, 3))
            methods.append({"name": name, "args": args})
            r = rng.random()
            if r < 0.15:
                continue                    # not documented at all
            params = [{"decl": a, "defval": False} for a in args]
            if r < 0.3 and params:
                params[rng.randrange(len(params))]["decl"] = "other"          # different parameter name
            elif r < 0.4:
                params.append({"decl": "opt", "defval": True})                  # optional parameter in the C++ code
            elif r < 0.45 and params:
                params[rng.randrange(len(params))]["decl"] = ""                # no <declname>
            elif r < 0.5:
                params.append({"decl": "", "defval": True})                     # optional parameter without <declname>
            members.append({"name": name, "params": params, "doc": (rand_text(rng, 1400, 500) if long else rand_text(rng)) if rng.random() < 0.85 else []})
    rng.shuffle(members)
    xml = {"index": rng.choice(["ok"] * 8 + ["missing", "malformed"]), "hasclass": rng.random() < 0.9,
           "classfile": rng.choice(["ok"] * 8 + ["missing", "malformed"]), "members": members}
    return {"id": "s%d" % k, "xml": xml, "cls": "A", "methods": methods}


def write_xml(folder, sit):
    xml = sit["xml"]
    if xml["index"] == "ok":
        comp = '<compound refid="classA" kind="class"><name>%s</name></compound>' % sit["cls"] if xml["hasclass"] else \
            '<compound refid="classB" kind="class"><name>Other</name></compound>'
        with open(os.path.join(folder, "index.xml"), "w", encoding="utf-8") as f:
            f.write('<?xml version="1.0" encoding="UTF-8"?>\n<doxygenindex>%s</doxygenindex>\n' % comp)
    elif xml["index"] == "malformed":
        with open(os.path.join(folder, "index.xml"), "w") as f:
            f.write("<doxygenindex><compound>")
    if xml["classfile"] == "ok":
        parts = []
        for m in xml["members"]:
            ps = "".join("<param><type>int</type>%s%s</param>" % (
                "<declname>%s</declname>" % p["decl"] if p["decl"] else "",
                "<defval>0</defval>" if p["defval"] else "") for p in m["params"])
            doc = "".join(chr(c) for c in m["doc"])
            brief = "<briefdescription><para>%s</para></briefdescription>" % escape(doc) if m["doc"] else ""
            parts.append('<memberdef kind="function" id="x"><name>%s</name><argsstring>()</argsstring>%s%s</memberdef>'
                         % (m["name"], ps, brief))
        with open(os.path.join(folder, "classA.xml"), "w", encoding="utf-8") as f:
            f.write('<?xml version="1.0" encoding="UTF-8"?>\n<doxygen><compounddef id="classA" kind="class">'
                    '<compoundname>A</compoundname><sectiondef kind="public-func">%s</sectiondef></compounddef></doxygen>\n'
                    % "".join(parts))
    elif xml["classfile"] == "malformed":
        with open(os.path.join(folder, "classA.xml"), "w") as f:
            f.write("<doxygen><compounddef>")


def interface_text(sit):
    ms = "".join("  void %s(%s);\n" % (m["name"], ", ".join("int %s" % a for a in m["args"])) for m in sit["methods"])
    return "class A {\n  A();\n%s};\n" % ms


def docs_of(text):
    """doc literals of the method bindings, in output order: code points of the characters between the quotes"""
    sc = proj_py.scan(text, has_doc=True)
    out = []
    for e in sc["events"]:
        if e["ev"] == "def":
            if not e["hasdoc"]:
                out.append(None)
            else:
                lit = e["doc"]
                out.append([ord(c) for c in lit[1:-1]])
    return out, sc


def job(sit):
    tmp = tempfile.mkdtemp(prefix="c17_")
    try:
        write_xml(tmp, sit)
        text = interface_text(sit)
        res = {"id": sit["id"], "runs": [], "exc": "", "nodoc_equal": True}
        w = gen.PybindWrapper(module_name="mod", top_module_namespaces=[""], ignore_classes=[],
                              module_template=proj_py.MARK_TPL, xml_source=tmp)
        for run in range(2):
            try:
                with open(os.devnull, "w") as devnull:
                    old = sys.stdout
                    sys.stdout = devnull        # the XML parser prints warnings for unreadable files
                    try:
                        out = w.wrap_file(text, module_name="mod")
                    finally:
                        sys.stdout = old
            except Exception as e:  # noqa: BLE001
                res["exc"] = "run %d: %s: %s" % (run + 1, type(e).__name__, str(e)[:200])
                break
            docs, sc = docs_of(out)
            res["runs"].append(docs)
            if run == 0:
                w0 = gen.PybindWrapper(module_name="mod", top_module_namespaces=[""], ignore_classes=[],
                                       module_template=proj_py.MARK_TPL)
                plain = proj_py.scan(w0.wrap_file(text, module_name="mod"))

                def strip(evs):
                    return [{k: v for k, v in e.items() if k not in ("doc", "hasdoc")} for e in evs]
                res["nodoc_equal"] = strip(sc["events"]) == strip(plain["events"]) and sc["includes"] == plain["includes"]
        return res
    finally:
        shutil.rmtree(tmp, ignore_errors=True)


def compile_literals(texts):
    """C++17 compiler as the decoder: print the bytes of each literal; -> list of byte lists"""
    tmp = tempfile.mkdtemp(prefix="c17cc_")
    try:
        src = os.path.join(tmp, "lits.cpp")
        with open(src, "w", encoding="utf-8") as f:
            f.write("#include <cstdio>\n#include <cstring>\nint main(){\n")
            for lit in texts:
                f.write('  { const char s[] = "%s"; for (size_t i = 0; i + 1 < sizeof(s); ++i) std::printf("%%d ", (int)(unsigned char)s[i]); std::printf("\\n"); }\n' % lit)
            f.write("  return 0;\n}\n")
        exe = os.path.join(tmp, "lits")
        p = subprocess.run(["g++", "-std=c++17", "-w", "-o", exe, src], stdout=subprocess.PIPE, stderr=subprocess.PIPE)
        if p.returncode != 0:
            return None, p.stderr.decode("utf-8", "replace")[:500]
        out = subprocess.run([exe], stdout=subprocess.PIPE).stdout.decode()
        return [[int(x) for x in line.split()] for line in out.split("\n")[:len(texts)]], ""
    finally:
        shutil.rmtree(tmp, ignore_errors=True)


def main():
    rep = common.Report(PID, "model_checking")
    rng = random.Random(rep.seed)
    thorough = rep.tier == "thorough"
    r0 = tlc.run("DocStringMC", "DocStringMC.cfg", workers=8, timeout=900)
    rep.count("states", r0.distinct)
    rep.count("transitions", r0.generated)
    sits = [situation(rng, k) for k in range(3000 if thorough else 400)]
    # documentation of realistic length (hundreds of characters, i.e. thousands once escaped)
    sits += [situation(rng, len(sits) + k, long=True) for k in range(40 if thorough else 8)]
    res = common.pmap(job, sits, chunksize=8)
    # expectations by TLC
    batch = [{"id": s["id"], "xml": s["xml"], "cls": s["cls"],
              "runs": [[{"name": m["name"], "args": m["args"]} for m in s["methods"]]] * 2} for s in sits]
    exp = {}
    fd, path = tempfile.mkstemp(prefix="doctrace_", suffix=".json")
    try:
        with os.fdopen(fd, "w") as f:
            json.dump(batch, f)
        rr = tlc.run("DocTrace", "DocTrace.cfg", env={"TRACE_FILE": path}, timeout=1800)
    finally:
        os.unlink(path)
    rep.count("states", rr.distinct)
    rep.count("transitions", rr.generated)
    for t in rr.by_tag("DOCS"):
        exp[t[1]] = json.loads(t[2])
    if len(exp) != len(sits):
        raise RuntimeError("DocTrace: %d results for %d situations" % (len(exp), len(sits)))
    nlit = 0
    ndecoded = nequiv = 0
    to_compile = []
    for s, o in zip(sits, res):
        wit = {"situation": s, "interface": interface_text(s)}
        if o["exc"]:
            cls = ""
            rep.violation("docstring-lookup-raises", cls, dict(wit, exception=o["exc"]))
            continue
        if not o["nodoc_equal"]:
            rep.violation("xml-changes-code-besides-literals", "", wit)
        for run, docs in enumerate(o["runs"]):
            e = exp[s["id"]][run]
            if len(docs) != len(e):
                raise RuntimeError("binding count mismatch for %s" % s["id"])
            for k, (got, want) in enumerate(zip(docs, e)):
                nlit += 1
                if got is None:
                    rep.violation("binding-without-docstring-literal", "", dict(wit, binding=k))
                    continue
                if got != want["literal"]:
                    # another spelling than DocString!Embed's is fine if the COMPILER decodes it to the extracted text
                    obs_lit = "".join(map(chr, got))
                    dec, err = (None, "not tried") if ndecoded >= 40 else compile_literals([obs_lit])
                    ndecoded += 1
                    if dec is not None and bytes(dec[0]) == "".join(map(chr, want["text"])).encode("utf-8"):
                        nequiv += 1
                        continue
                    rep.violation("wrong-docstring-or-wrong-literal" if dec is not None or err == "not tried" else "generated-literal-does-not-compile", "",
                                  dict(wit, run=run + 1, binding=k, observed=obs_lit[:600],
                                       expected="".join(map(chr, want["literal"]))[:600], compiler=err[:300]))
                elif run == 0 and want["text"] and len(to_compile) < (400 if thorough else 60):
                    to_compile.append((want, s["id"], k))
    # the compiler as decoder
    if to_compile:
        lits = ["".join(map(chr, w["literal"])) for w, _, _ in to_compile]
        got, err = compile_literals(lits)
        if got is None:
            rep.violation("generated-literal-does-not-compile", "", {"stderr": err})
        else:
            for (w, sid, k), bs in zip(to_compile, got):
                text = "".join(map(chr, w["text"]))
                if bytes(bs) != text.encode("utf-8"):
                    rep.violation("compiler-decodes-literal-to-other-text", "",
                                  {"text": text, "literal": "".join(map(chr, w["literal"])), "bytes": bs})
                # bind DocString!Decode to the compiler: the model's decoding must agree with g++'s
                if bs != w["decoded"]:
                    raise RuntimeError("DocString!Decode disagrees with g++ on %r: %r vs %r"
                                       % ("".join(map(chr, w["literal"])), w["decoded"], bs))
    rep.count("traces_validated_against_impl", len(sits))
    rep.count("evaluations", nlit)
    rep.cov["distinct_nontrivial"] = len({json.dumps(s["xml"], sort_keys=True) for s in sits})
    rep.cov["literals_compared"] = nlit
    rep.cov["literals_compiled"] = len(to_compile)
    rep.cov["literals_spelled_differently_but_decoding_to_the_text"] = nequiv
    rep.cov["rule"] = "one situation = one Doxygen XML tree + interface class; every method binding's literal of two successive wrap_file runs is compared"
    rep.sample({"situation": sits[0]})
    return rep.finish()


if __name__ == "__main__":
    try:
        sys.exit(main())
    except (tlc.TLCError, proj.ProjectionError, RuntimeError, proj_py.ScanError) as e:
        print("MACHINERY FAILURE: %s" % e, file=sys.stderr)
        sys.exit(2)
