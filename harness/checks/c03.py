"""C03 - the generated Python module exposes exactly the declared API  /  C04 (static half) - every binding forwards
to the declared C++ entity.  Shared driver (c04.py adds the executed half).
spec/PyBind.tla: Expected(inst, opts) and the registration machine (DefSubmodule / Register).  For TLC-derived modules
and fixtures x option sets (top namespace at every depth incl. non-matching ones, ignore lists, serialization flag)
the real generator runs, its output is scanned into registration events (harness/proj_py.py) and TLC (PyTrace) runs
the machine on them.  Clauses are tagged with the property they belong to."""
import glob
import os
import random
import sys

sys.path.insert(0, os.path.dirname(os.path.dirname(os.path.abspath(__file__))))
import cases  # noqa: E402
import common  # noqa: E402
import layout  # noqa: E402
import proj  # noqa: E402
import pycheck  # noqa: E402
import tlc  # noqa: E402


def ns_paths(inst, path=()):
    out = []
    for d in inst:
        if d.get("k") == "namespace":
            p = path + (d["name"],)
            out.append(list(p))
            out += ns_paths(d["items"], p)
    return out


def class_cpps(inst):
    out = []
    for d in inst:
        if d.get("k") in ("class", "fwdinst"):
            out.append(d["cpp"])
        elif d.get("k") == "namespace":
            out += class_cpps(d["items"])
    return out


def option_sets(inst, rng, n):
    paths = ns_paths(inst)
    cpps = class_cpps(inst)
    tops = [[]] + paths + [["zz"]] + [p + ["zz"] for p in paths[:1]] + [p[:1] + ["zz"] for p in paths if len(p) > 1][:1]
    # names that are a proper prefix / an extension of a namespace name (string-prefix confusions)
    for p in paths[:3]:
        if len(p[-1]) > 1:
            tops.append(p[:-1] + [p[-1][:max(1, len(p[-1]) // 2)]])
        tops.append(p[:-1] + [p[-1] + "_unstable"])
    sets = [{"top": [], "ignore": [], "ser": rng.random() < 0.5}]
    for _ in range(n - 1):
        ig = []
        r = rng.random()
        if cpps and r < 0.5:
            ig = rng.sample(cpps, 1 if r < 0.35 else min(len(cpps), 2))
        elif r < 0.6:
            ig = ["NoSuch::Class"]
        sets.append({"top": rng.choice(tops), "ignore": ig, "ser": rng.random() < 0.5})
    return sets


def job(item):
    cid, origin, text, seed, nopts = item
    rng = random.Random(seed)
    first = pycheck.observe(text)
    if "inst" not in first:
        return [(cid + "/0", origin, text, {"top": [], "ignore": [], "ser": False}, first)]
    out = []
    for k, o in enumerate(option_sets(first["inst"], rng, nopts)):
        ob = pycheck.observe(text, top=[""] + o["top"], ignore=o["ignore"], ser=o["ser"])
        out.append(("%s/%d" % (cid, k), origin, text, o, ob))
    return out


def main(pid):
    rep = common.Report(pid, "model_checking")
    rng = random.Random(rep.seed)
    thorough = rep.tier == "thorough"
    prefix = pid + ":"
    plan = [("sim", dict(n=2500 if thorough else 160, target=10)),
            ("exh", dict(universe="classes", target=4, members=3, sample=4000 if thorough else 250)),
            ("exh", dict(universe="sigs", maxargs=3 if thorough else 2, target=2, members=1, sample=4000 if thorough else 250)),
            ("exh", dict(universe="ns", target=4, members=1, sample=4000 if thorough else 260, pairs=True)),
            ("exh", dict(universe="types", typedepth=1, target=2, members=1, rich=True, sample=4000 if thorough else 150)),
            ("exh", dict(universe="inst", target=40, maxitems=2, sample=None if thorough else 200))]
    allcases = []
    plan += [("scenario", dict(family="members")), ("scenario", dict(family="serializable")), ("scenario", dict(family="enums")),
             ("scenario", dict(family="special"))]
    for kind, kw in plan:
        if kind == "sim":
            cs, r = cases.simulate(seed=rep.seed, **kw)
        elif kind == "scenario":
            cs, r = cases.scenarios(**kw)
        else:
            sample = kw.pop("sample", None)
            pairs = kw.pop("pairs", False)
            cs, r = cases.exhaustive(**kw)
            if sample is not None and len(cs) > sample:
                cs = common.cover_pairs(cs, rng, sample) if pairs else rng.sample(cs, sample)
        rep.count("states", max(r.distinct, r.generated))
        rep.count("transitions", r.generated)
        allcases += [(c["origin"], layout.render(c["toks"])) for c in cs]
    for f in sorted(glob.glob(os.path.join(common.REPO, "tests", "fixtures", "*.i"))):
        with open(f) as fh:
            allcases.append((os.path.basename(f), fh.read()))
    items = [("c%d" % i, origin, text, rep.seed * 100003 + i, 4 if thorough else 3)
             for i, (origin, text) in enumerate(allcases)]
    res = common.pmap(job, items, chunksize=4)
    batch, meta = [], {}
    outcomes = {}
    for lst in res:
        for oid, origin, text, opts, ob in lst:
            outcomes[ob["outcome"]] = outcomes.get(ob["outcome"], 0) + 1
            meta[oid] = (origin, text, opts)
            if ob["outcome"] == "ok":
                batch.append({"id": oid, "inst": ob["inst"], "opts": opts, "events": ob["scan"]["events"],
                              "includes": ob["scan"]["includes"],
                              "export": [l for l in ob["scan"]["export"].split("\n") if l.strip()],
                              "spell": ob.get("spell", [])})
            elif ob["outcome"] == "unscannable" and pid == "C03":
                # a construct the scanner cannot read: a C09 matter if unbalanced, otherwise machinery
                if ob["balanced"]:
                    raise RuntimeError("scanner cannot read generated text (%s) for %s opts=%s" % (ob["detail"], origin, opts))
            elif ob["outcome"].startswith("gen-exc") and pid == "C03":
                rep.violation("C03:generator-raises-on-instantiable-module", "",
                              {"origin": origin, "text": text, "opts": opts, "exception": ob["outcome"], "msg": ob.get("msg"),
                               "tb": ob.get("tb")})
    chunks = [batch[k:k + 400] for k in range(0, len(batch), 400)]
    import concurrent.futures
    verdicts = {}
    with concurrent.futures.ThreadPoolExecutor(max_workers=8) as ex:
        for v, r in ex.map(pycheck.validate, chunks):
            verdicts.update(v)
            rep.count("states", r.distinct)
            rep.count("transitions", r.generated)
    other = {}
    nevents = 0
    for b in batch:
        nevents += len(b["events"])
        for clause in verdicts[b["id"]]:
            if clause.startswith(prefix):
                origin, text, opts = meta[b["id"]]
                rep.violation(clause, classify(clause, b), {"origin": origin, "text": text, "opts": opts})
            else:
                other[clause.split(":")[0]] = other.get(clause.split(":")[0], 0) + 1
    rep.count("traces_validated_against_impl", len(batch))
    rep.count("evaluations", len(batch))
    rep.cov["registration_events_consumed"] = nevents
    rep.cov["distinct_nontrivial"] = len({(meta[b["id"]][1], str(meta[b["id"]][2])) for b in batch if b["events"]})
    rep.cov["rule"] = "one evaluation = one (module, option set) whose generated text was scanned and run through the machine; non-trivial = at least one registration event"
    rep.cov["outcomes"] = outcomes
    rep.cov["clauses_of_other_properties_seen"] = other
    if batch:
        rep.sample({"text": meta[batch[0]["id"]][1][:300], "opts": meta[batch[0]["id"]][2],
                    "events": [e["ev"] for e in batch[0]["events"]][:20]})
    if pid == "C03":
        import pycallcheck
        pycallcheck.run(rep, thorough, "C03")
        rep.assumptions += ["executed half: the public attributes of every module object and class object of built 'call' profile "
                            "modules must be exactly the declared names (PyCall!ExposeNs); top namespace [''] and empty ignore list"]
    if pid == "C04":
        import pycallcheck
        pycallcheck.run(rep, thorough, "C04")
        rep.assumptions += ["executed half: modules of the 'call' profile only (basic / string / declared-class parameter types), top "
                            "namespace [''], no ignore list; the library is rendered by harness/cpplib.py from the specification's tree"]
    rep.assumptions += ["the scanner harness/proj_py.py (validated on the repository's golden outputs) is trusted",
                        "Expected is computed from the instantiated tree the implementation built (C02/C08 judge that tree)"]
    return rep.finish()


def classify(clause, b):
    return ""


if __name__ == "__main__":
    try:
        sys.exit(main("C03"))
    except (tlc.TLCError, proj.ProjectionError, RuntimeError) as e:
        print("MACHINERY FAILURE: %s" % e, file=sys.stderr)
        sys.exit(2)
