"""C07 - input is either fully understood or loudly rejected, never half-used.
Fault enumeration over the fault model of spec/Corrupt.tla: every single-token delete / duplicate / adjacent swap /
truncation / stray-token insertion / bracket flip of derivations of IfaceDerive and of fixtures.
  outcome reject      -> a failing run: must terminate with an exception and leave the output directory untouched
  outcome accept(t)   -> TLC (IfaceTrace) re-applies the fault with ApplyCorrupt and decides Explains(t, tokens)
Both generators (API) on a sample; both command-line scripts on a smaller sample (process start dominates)."""
import glob
import json
import os
import random
import shutil
import subprocess
import sys
import tempfile

sys.path.insert(0, os.path.dirname(os.path.dirname(os.path.abspath(__file__))))
import cases  # noqa: E402
import common  # noqa: E402
import gen  # noqa: E402
import layout  # noqa: E402
import lexer  # noqa: E402
import pipeline  # noqa: E402
import proj  # noqa: E402
import tlc  # noqa: E402

PID = "C07"
STRAY = ["{", "}", "(", ")", "<", ">", ";", ",", "=", "::", "*", "@", "&", "class", "foo", "7", "const", ":"]
FLIP = {"(": ")", ")": "(", "{": "}", "}": "{", "<": ">", ">": "<"}


def apply_fault(toks, op, i, x):
    """harness-side application (TLC re-applies it with Corrupt!ApplyCorrupt for every accepted input)."""
    t = list(toks)
    k = i - 1
    if op == "delete":
        del t[k]
    elif op == "duplicate":
        t.insert(k, t[k])
    elif op == "swap":
        t[k], t[k + 1] = t[k + 1], t[k]
    elif op == "truncate":
        t = t[:k]
    elif op == "insert":
        t.insert(k, STRAY[x - 1])
    elif op == "flip":
        t[k] = FLIP[t[k]]
    elif op == "dropdefault":
        del t[k:k + 2]
    elif op == "rename":
        t[k] = "Zzz"
    elif op == "unclose":
        t[k] = "#include <unterminated"
    return t


def faults(toks):
    n = len(toks)
    for i in range(1, n + 1):
        yield ("delete", i, 0)
        yield ("duplicate", i, 0)
        yield ("truncate", i, 0)
        if i < n:
            yield ("swap", i, 0)
        if toks[i - 1] in FLIP:
            yield ("flip", i, 0)
        if toks[i - 1] == "=" and i < n and toks[i] != "{":
            yield ("dropdefault", i, 0)
        if toks[i - 1][:1].isalpha() or toks[i - 1][:1] == "_":
            yield ("rename", i, 0)
        if toks[i - 1].startswith("#include <"):
            yield ("unclose", i, 0)
    for i in range(1, n + 2):
        for x in range(1, len(STRAY) + 1):
            yield ("insert", i, x)


def safe_text(toks):
    """canonical layout; the fault may have put two tokens next to each other that need a separator - the
    canonical layout separates everything except around '::'."""
    gaps = layout.canonical_gaps(toks)
    for g in range(1, len(toks)):
        if gaps[g] == "" and layout.needs_space(toks[g - 1], toks[g]):
            gaps[g] = " "
    return layout.render(toks, gaps)


def join_canon(ts):
    out = ts[0]
    for a, b in zip(ts, ts[1:]):
        out += ("" if a == "::" or b == "::" else " ") + b
    return out


def regroup(corrupted, text):
    """Re-lex the text; align the lexed tokens with the corrupted tokens -> (lexed, groups) or None."""
    try:
        lexed = lexer.lex(text)
    except lexer.LexError:
        return None
    groups = []
    k = 0
    for L in lexed:
        s = k
        while k < len(corrupted):
            k += 1
            if join_canon(corrupted[s:k]) == L:
                break
        else:
            return None
        groups.append([s + 1, k])
    if k != len(corrupted):
        return None
    return lexed, groups


def features(tree):
    """structural features of a case (kinds of declarations / members, templated or not) - for stratified choice"""
    out = set()

    def walk(x):
        if isinstance(x, dict):
            if "k" in x:
                out.add((x["k"], bool(x.get("tmpl")), bool(x.get("ret", {}).get("pair")) if isinstance(x.get("ret"), dict) else False,
                         len(x.get("args", [])) if isinstance(x.get("args"), list) else 0))
            for v in x.values():
                walk(v)
        elif isinstance(x, list):
            for v in x:
                walk(v)
    walk(tree)
    return out


def cover(cases_, rng, n):
    """greedy choice of n cases that covers as many structural features as possible (ties broken randomly)"""
    pool = list(cases_)
    rng.shuffle(pool)
    feats = [features(c["tree"]) for c in pool]
    chosen, seen = [], set()
    for _ in range(min(n, len(pool))):
        best = max(range(len(pool)), key=lambda i: (len(feats[i] - seen), -len(pool[i]["toks"])) if i not in chosen else (-1, 0))
        chosen.append(best)
        seen |= feats[best]
    return [pool[i] for i in chosen]


def late_shape(tree):
    """a namespace holding a class or enum, followed later by a function with >= 2 defaults (late validation errors)"""
    seen_ns = False
    for d in tree:
        if d["k"] == "namespace" and any(x["k"] in ("class", "enum") for x in d["items"]):
            seen_ns = True
        if seen_ns and d["k"] == "function" and sum(1 for a in d["args"] if a["hasdef"]) >= 2:
            return True
    return False


def parse_job(job):
    origin, base, flist = job
    out = []
    for (op, i, x) in flist:
        toks = apply_fault(base, op, i, x)
        text = safe_text(toks)
        if op == "unclose":
            # a directive ends with its line: the unterminated include stands on a line of its own (on ONE line the text up
            # to the next '>' would be a - strange but legal - header name)
            text = safe_text(toks[:i]) + "\n" + safe_text(toks[i:])
        r = pipeline.parse_text(text)
        if r[0] == "ok":
            try:
                tree = proj.proj_tree(r[1])
            except proj.ProjectionError as e:
                out.append((op, i, x, "accept-unprojectable", str(e)))
                continue
            if op == "unclose":
                # (the lexer cannot align an unterminated include either: the observation goes to TLC as it is)
                out.append((op, i, x, "accept", tree, toks, [[k_ + 1, k_ + 1] for k_ in range(len(toks))]))
                continue
            rg = regroup(toks, text)
            if rg is None:
                out.append((op, i, x, "accept-unalignable", text))
                continue
            out.append((op, i, x, "accept", tree, rg[0], rg[1]))
        else:
            out.append((op, i, x, r[0], r[1]))
    return origin, out


def generator_job(job):
    """A failing run must not create or modify any output file (API level, both generators)."""
    origin, toks, fault = job
    text = safe_text(toks)
    res = []
    # MATLAB: wrap() writes into a fresh directory
    m = gen.matlab_files([text])
    if m[0] == "exc" and m[4]:
        res.append(("failing-matlab-run-wrote-files", {"exc": m[1], "msg": m[2], "written": m[4][:10]}))
    # pybind: wrap() writes main_module_name
    tmp = tempfile.mkdtemp(prefix="c07_")
    try:
        src = os.path.join(tmp, "in.i")
        with open(src, "w") as f:
            f.write(text)
        outp = os.path.join(tmp, "out", "mod.cpp")
        os.mkdir(os.path.join(tmp, "out"))
        before = gen.list_tree(os.path.join(tmp, "out"))
        failed = False
        try:
            w = gen.PybindWrapper(module_name="mod", top_module_namespaces=[""], ignore_classes=[],
                                  module_template=gen.PYBIND_TPL)
            w.wrap([src], outp)
        except Exception:  # noqa: BLE001
            failed = True
        after = gen.list_tree(os.path.join(tmp, "out"))
        if failed and before != after:
            res.append(("failing-pybind-run-wrote-files", {"written": sorted(after)}))
        outcome = ("fail" if failed else "ok", "fail" if m[0] == "exc" else "ok")
    finally:
        shutil.rmtree(tmp, ignore_errors=True)
    return origin, fault, outcome, res


def record_run(job):
    """One observed run of a generator for WrapTrace: the stage entry points and the file-system calls are wrapped
    from outside (nothing in the repository is changed); events are logged after the call returns or raises."""
    origin, toks, fault, which = job
    import builtins
    import gtwrap.interface_parser as gparser
    import gtwrap.template_instantiator as ginst
    from gtwrap.matlab_wrapper import MatlabWrapper
    text = safe_text(toks)
    tmp = tempfile.mkdtemp(prefix="c07t_")
    out = os.path.join(tmp, "out")
    events = []

    def ev(kind, ok=True, name=""):
        events.append({"ev": kind, "ok": bool(ok), "name": name})

    def staged(kind, fn):
        def wrapped(*a, **k):
            try:
                r = fn(*a, **k)
            except BaseException:
                ev(kind, False)
                raise
            ev(kind, True)
            return r
        return wrapped

    def under_out(path):
        ap = os.path.abspath(os.fspath(path))
        return os.path.relpath(ap, out) if ap == out or ap.startswith(out + os.sep) else None

    o_open, o_mkdirs, o_mkdir = builtins.open, os.makedirs, os.mkdir
    o_parse, o_inst = gparser.Module.parseString, ginst.instantiate_namespace
    o_wf, o_gw = gen.PybindWrapper.wrap_file, MatlabWrapper.generate_wrapper

    def t_open(file, mode="r", *a, **k):
        rel = under_out(file) if isinstance(file, (str, os.PathLike)) else None
        if rel is not None and any(c in mode for c in "wax+"):
            ev("Write", True, rel)
        return o_open(file, mode, *a, **k)

    def t_mkdirs(path, *a, **k):
        rel = under_out(path)
        existed = os.path.isdir(path)
        r = o_mkdirs(path, *a, **k)
        if rel is not None and not existed:
            ev("MakeDir", True, rel)
        return r

    def t_mkdir(path, *a, **k):
        rel = under_out(path)
        r = o_mkdir(path, *a, **k)          # raises when the directory exists: nothing happened, nothing is logged
        if rel is not None:
            ev("MakeDir", True, rel)
        return r

    failed = False
    try:
        src = os.path.join(tmp, "in.i")
        with open(src, "w") as f:
            f.write(text)
        os.mkdir(out)
        gparser.Module.parseString = staticmethod(staged("Parse", o_parse))
        ginst.instantiate_namespace = staged("Instantiate", o_inst)
        gen.PybindWrapper.wrap_file = staged("Generate", o_wf)
        MatlabWrapper.generate_wrapper = staged("Generate", o_gw)
        builtins.open, os.makedirs, os.mkdir = t_open, t_mkdirs, t_mkdir
        try:
            if which == "pybind":
                w = gen.PybindWrapper(module_name="mod", top_module_namespaces=[""], ignore_classes=[],
                                      module_template=gen.PYBIND_TPL)
                w.wrap([src], os.path.join(out, "mod.cpp"))
            else:
                w = MatlabWrapper(module_name="mod", top_module_namespace=[""], ignore_classes=[])
                w.wrap([src], path=out)
        except Exception:  # noqa: BLE001
            failed = True
    finally:
        builtins.open, os.makedirs, os.mkdir = o_open, o_mkdirs, o_mkdir
        gparser.Module.parseString = o_parse
        ginst.instantiate_namespace = o_inst
        gen.PybindWrapper.wrap_file = o_wf
        MatlabWrapper.generate_wrapper = o_gw
        shutil.rmtree(tmp, ignore_errors=True)
    # pybind's wrap_file spans parse..generate: its own failure event is redundant when an inner stage failed
    stages = [e for e in events if e["ev"] in ("Parse", "Instantiate", "Generate")]
    if which == "pybind" and len(stages) >= 2 and not stages[-1]["ok"] and not stages[-2]["ok"]:
        events.remove(stages[-1])
    stages = [e for e in events if e["ev"] in ("Parse", "Instantiate", "Generate")]
    if failed and (not stages or stages[-1]["ok"]) and not any(e["ev"] == "Generate" for e in events):
        # the exception came from generator code outside the wrapped entry points (MATLAB wrap_namespace)
        ev("Generate", False)
    ev("Exit", not failed)
    flag = {e["ev"]: e["ok"] for e in events if e["ev"] in ("Parse", "Instantiate", "Generate")}
    outs = []
    for e in events:
        if e["ev"] == "Write" and e["name"] not in outs:
            outs.append(e["name"])
    return {"id": "", "origin": origin, "fault": list(fault), "which": which, "text": text,
            "input": {"parses": flag.get("Parse", True), "instantiates": flag.get("Instantiate", True),
                      "generates": flag.get("Generate", True), "outs": outs},
            "events": events}


def script_job(job):
    """Command-line scripts: non-zero exit <=> nothing written; existing files untouched."""
    origin, toks, fault, which = job
    text = safe_text(toks)
    tmp = tempfile.mkdtemp(prefix="c07s_")
    res = []
    try:
        src = os.path.join(tmp, "in.i")
        with open(src, "w") as f:
            f.write(text)
        out = os.path.join(tmp, "out")
        os.mkdir(out)
        sentinel = os.path.join(out, "mod.cpp" if which == "pybind" else "keep.m")
        with open(sentinel, "w") as f:
            f.write("SENTINEL\n")
        before = gen.list_tree(out)
        env = dict(os.environ, PYTHONPATH=common.REPO)
        if which == "pybind":
            cmd = ["/venv/bin/python", os.path.join(common.REPO, "scripts", "pybind_wrap.py"), "--src", src,
                   "--module_name", "mod", "--out", os.path.join(out, "mod.cpp"), "--ignore", "--template",
                   os.path.join(common.REPO, "templates", "pybind_wrapper.tpl.example")]
        else:
            cmd = ["/venv/bin/python", os.path.join(common.REPO, "scripts", "matlab_wrap.py"), "--src", src,
                   "--module_name", "mod", "--out", out, "--ignore"]
        try:
            p = subprocess.run(cmd, cwd=tmp, env=env, stdout=subprocess.PIPE, stderr=subprocess.PIPE, timeout=120)
            rc = p.returncode
        except subprocess.TimeoutExpired:
            res.append(("script-does-not-terminate", {"cmd": cmd}))
            rc = -1
        after = gen.list_tree(out)
        # "rejected loudly": what the parser rejects (or a generator refuses) makes the script exit non-zero
        rejected = pipeline.parse_text(text)[0] != "ok"
        if rejected and rc == 0:
            res.append(("script-exits-zero-on-rejected-input", {"rc": rc, "cmd": cmd[1:4], "which": which,
                                                                  "stderr": p.stderr.decode("utf-8", "replace")[-300:]}))
        if rc != 0 and before != after:
            res.append(("failing-%s-script-wrote-files" % which,
                        {"rc": rc, "changed": sorted(set(after) ^ set(before)) or "sentinel modified"}))
        return origin, fault, which, rc, res
    finally:
        shutil.rmtree(tmp, ignore_errors=True)


def main():
    rep = common.Report(PID, "fault_enumeration")
    thorough = rep.tier == "thorough"
    rng = random.Random(rep.seed)
    # the fault model's own laws (ASSUME in Corrupt.tla) are evaluated when IfaceTrace is loaded below
    cs, r = cases.simulate(n=40 if thorough else 6, seed=rep.seed, target=6)
    small, r2 = cases.exhaustive("classes", target=3, members=2)
    small = cover(small, rng, 40 if thorough else 7)
    sigs, r3 = cases.exhaustive("sigs", maxargs=2, target=2, members=1)
    sigs = cover(sigs, rng, 60 if thorough else 8)
    nsu, r4 = cases.exhaustive("ns", target=4, members=1)
    late = [c for c in nsu if late_shape(c["tree"])]
    late = rng.sample(late, min(len(late), 30 if thorough else 4))
    bases = [(c["origin"], c["toks"]) for c in cs + small + sigs + late]
    # two includes with declarations in between (an unterminated first include must not swallow up to the second one's '>')
    bases.append(("directed:two-includes", ["#include <a.h>", "class", "A", "{", "}", ";", "#include <b/c.h>", "class", "B", "{", "}", ";"]))
    for f in sorted(glob.glob(os.path.join(common.REPO, "tests", "fixtures", "*.i"))):
        with open(f) as fh:
            toks = lexer.lex(fh.read())
        if len(toks) < (900 if thorough else 140):
            bases.append((os.path.basename(f), toks))
    jobs = []
    nfaults = 0
    for origin, toks in bases:
        fl = list(faults(toks))
        if not thorough and len(fl) > 1200:
            # keep every delete/duplicate/swap/truncate/flip, sample the stray insertions
            keep = [f for f in fl if f[0] != "insert"]
            ins = [f for f in fl if f[0] == "insert"]
            fl = keep + rng.sample(ins, 1200 - min(1200, len(keep)) if len(keep) < 1200 else 0)
        nfaults += len(fl)
        for k in range(0, len(fl), 150):
            jobs.append((origin, toks, fl[k:k + 150]))
    results = common.pmap(parse_job, jobs, chunksize=1)
    base_of = dict(bases)
    batch = []
    outcomes = {"reject": 0, "accept": 0, "crash": 0}
    crash_kinds = {}
    accepted = []
    for origin, outs in results:
        for o in outs:
            op, i, x, kind = o[:4]
            if kind == "accept":
                outcomes["accept"] += 1
                oid = "%s|%s|%d|%d" % (origin, op, i, x)
                batch.append({"id": oid, "toks": o[5], "tree": o[4], "op": op, "base": base_of[origin], "i": i, "x": x,
                              "groups": o[6]})
                accepted.append((origin, o[5], (op, i, x)))
            elif kind == "accept-unalignable":
                raise RuntimeError("cannot align re-lexed tokens with the corrupted tokens: %r" % (o[4],))
            elif kind == "accept-unprojectable":
                rep.violation("accepted-input-yields-unknown-tree-shape", "", {"origin": origin, "fault": [op, i, x],
                                                                              "detail": o[4]})
            elif kind == "crash":
                outcomes["crash"] += 1
                crash_kinds[o[4]] = crash_kinds.get(o[4], 0) + 1
            else:
                outcomes["reject"] += 1
    # accepted corrupted inputs: TLC decides whether the tree accounts for every token
    by_id = {b["id"]: b for b in batch}
    for k in range(0, len(batch), 4000):
        chunk = batch[k:k + 4000]
        fd, path = tempfile.mkstemp(prefix="c07trace_", suffix=".json")
        try:
            with os.fdopen(fd, "w") as f:
                json.dump(chunk, f)
            tr = tlc.run("IfaceTrace", "IfaceTrace.cfg", env={"TRACE_FILE": path}, timeout=1200)
        finally:
            os.unlink(path)
        vs = tr.by_tag("VERDICT")
        if len(vs) != len(chunk):
            open("/tmp/c07_tlc_out.txt", "w").write(tr.out)
            json.dump(chunk, open("/tmp/c07_chunk.json", "w"))
            raise RuntimeError("IfaceTrace: %d verdicts for %d observations" % (len(vs), len(chunk)))
        rep.count("states", tr.distinct)
        rep.count("transitions", tr.generated)
        for v in vs:
            if v[2]:
                ob = by_id[v[1]]
                if v[2] == "harness-regrouping-wrong":
                    raise RuntimeError("TLC rejected the harness' regrouping of %s" % v[1])
                clause, _, cls = v[2].partition("/")
                rep.violation(clause, {"one-qualifier-dropped": "QualifierOnTypenameDropped"}.get(cls, cls),
                              {"id": v[1], "text": safe_text(ob["toks"]), "toks": ob["toks"]})
    # file effects of failing runs: all rejected truncations + a sample of the rest (API), smaller sample (scripts)
    # every corrupted input the parser accepted goes through both generators (a validation error may still come,
    # after part of the output has been produced), plus a sample of the rejected ones and the bases themselves
    gjobs = [(origin, apply_fault(base_of[origin], *f), f) for origin, _t, f in accepted]
    if not thorough and len(gjobs) > 900:
        keepf = [g for g in gjobs if g[2][0] in ("dropdefault", "rename")]
        rest = [g for g in gjobs if g[2][0] not in ("dropdefault", "rename")]
        gjobs = keepf + rng.sample(rest, 900 - min(900, len(keepf)))
    gjobs += [(origin, toks, ("none", 0, 0)) for origin, toks in bases]
    for origin, toks in bases:
        fl = [f for f in faults(toks)]
        pick = rng.sample(fl, min(len(fl), 30 if thorough else 4))
        gjobs += [(origin, apply_fault(toks, *f), f) for f in pick]
    gres = common.pmap(generator_job, gjobs, chunksize=4)
    gen_outcomes = {}
    for origin, fault, outcome, res in gres:
        gen_outcomes[str(outcome)] = gen_outcomes.get(str(outcome), 0) + 1
        for clause, wit in res:
            wit.update({"origin": origin, "fault": fault})
            rep.violation(clause, "", wit)
    sjobs = []
    for (origin, toks, f) in rng.sample(gjobs, min(len(gjobs), 160 if thorough else 24)):
        sjobs.append((origin, toks, f, "pybind"))
        sjobs.append((origin, toks, f, "matlab"))
    sres = common.pmap(script_job, sjobs, chunksize=2)
    script_rc = {}
    for origin, fault, which, rc, res in sres:
        script_rc["%s:%s" % (which, "0" if rc == 0 else "nonzero")] = script_rc.get("%s:%s" % (which, "0" if rc == 0 else "nonzero"), 0) + 1
        for clause, wit in res:
            wit.update({"origin": origin, "fault": fault})
            rep.violation(clause, "", wit)
    # the pipeline specification itself: safety invariants and termination / completion under fairness
    wm = tlc.run("Wrap", "Wrap.cfg", workers=2, timeout=600, deadlock_ok=True)
    rep.count("states", wm.distinct)
    rep.count("transitions", wm.generated)
    # recorded runs of both generators validated against the pipeline specification (Wrap.tla via WrapTrace.tla)
    tsel = gjobs if thorough else rng.sample(gjobs, min(len(gjobs), 400))
    tjobs = [(origin, toks, f, which) for (origin, toks, f) in tsel for which in ("pybind", "matlab")]
    traces = common.pmap(record_run, tjobs, chunksize=4)
    for k, t in enumerate(traces):
        t["id"] = "t%d" % k
    trace_shapes = {}
    fd, path = tempfile.mkstemp(prefix="wraptrace_", suffix=".json")
    try:
        with os.fdopen(fd, "w") as f:
            json.dump([{"id": t["id"], "input": t["input"], "events": t["events"]} for t in traces], f)
        wt = tlc.run("WrapTrace", "WrapTrace.cfg", env={"TRACE_FILE": path}, timeout=1800)
    finally:
        os.unlink(path)
    wv = {v[1]: v[2] for v in wt.by_tag("VERDICT")}
    if len(wv) != len(traces):
        raise RuntimeError("WrapTrace: %d verdicts for %d traces" % (len(wv), len(traces)))
    rep.count("states", wt.distinct)
    rep.count("transitions", wt.generated)
    for t in traces:
        shape = "%s:%s" % (t["which"], ">".join("%s%s" % (e["ev"], "" if e["ok"] else "!") for e in t["events"]
                                                if e["ev"] not in ("Write", "MakeDir")))
        trace_shapes[shape] = trace_shapes.get(shape, 0) + 1
        if wv[t["id"]]:
            rep.violation("run-is-not-a-behaviour-of-Wrap", "",
                          {"verdict": wv[t["id"]], "which": t["which"], "origin": t["origin"], "fault": t["fault"],
                           "text": t["text"], "events": t["events"][:40]})
    rep.count("evaluations", nfaults + len(gjobs) + len(sjobs) + len(tjobs))
    rep.cov["distinct_nontrivial"] = nfaults
    rep.cov["rule"] = ("one evaluation = one (module, fault) pair of the fault model Corrupt!ApplyCorrupt replayed into "
                       "Module.parseString (all faults of each module unless sampled: see exhaustive_per_module), "
                       "plus generator / script runs for file effects; distinct = distinct (module, op, position, stray)")
    rep.cov["exhaustive_per_module"] = thorough
    rep.cov["parse_outcomes"] = outcomes
    rep.cov["non_parse_exceptions"] = crash_kinds
    rep.cov["accepted_validated_by_tlc"] = len(batch)
    rep.cov["generator_outcomes(pybind,matlab)"] = gen_outcomes
    rep.cov["script_exit_codes"] = script_rc
    rep.cov["recorded_runs_validated_against_Wrap"] = trace_shapes
    rep.cov["modules"] = len(bases)
    if accepted:
        rep.sample({"accepted_corruption": safe_text(accepted[0][1])[:300], "fault": accepted[0][2]})
    rep.sample({"module": " ".join(bases[0][1])[:300]})
    rep.assumptions += ["a run that raises any exception counts as a loud rejection; the exception kinds are recorded",
                        "single-token faults only (no double faults)"]
    return rep.finish()


if __name__ == "__main__":
    try:
        sys.exit(main())
    except (tlc.TLCError, proj.ProjectionError, RuntimeError) as e:
        print("MACHINERY FAILURE: %s" % e, file=sys.stderr)
        sys.exit(2)
