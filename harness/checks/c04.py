"""C04 - every Python binding forwards to the declared C++ entity, faithfully (driver shared with c03.py)."""
import os
import sys

sys.path.insert(0, os.path.dirname(os.path.abspath(__file__)))
sys.path.insert(0, os.path.dirname(os.path.dirname(os.path.abspath(__file__))))
import c03  # noqa: E402
import proj  # noqa: E402
import tlc  # noqa: E402

if __name__ == "__main__":
    try:
        sys.exit(c03.main("C04"))
    except (tlc.TLCError, proj.ProjectionError, RuntimeError) as e:
        print("MACHINERY FAILURE: %s" % e, file=sys.stderr)
        sys.exit(2)
