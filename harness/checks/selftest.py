"""./check selftest - demonstrates that the specifications are bound to the implementation and not vacuous:
(i) one field of one recorded observation is corrupted per trace module and TLC must reject the trace, naming the clause;
(ii) one event is removed and the trace must be rejected; (iii) TLC runs the machine specs with -coverage 1 and every
action must have been taken.  Exit 0 iff every demonstration behaves as expected."""
import copy
import glob
import json
import os
import sys

sys.path.insert(0, os.path.dirname(os.path.dirname(os.path.abspath(__file__))))
sys.path.insert(0, os.path.dirname(os.path.abspath(__file__)))
import c01  # noqa: E402
import cases  # noqa: E402
import common  # noqa: E402
import mexcheck  # noqa: E402
import pycheck  # noqa: E402
import tlc  # noqa: E402

FAIL = []


def expect(name, cond, detail=""):
    print(("ok    " if cond else "FAIL  ") + name + ("" if cond else "  :: " + str(detail)[:300]))
    if not cond:
        FAIL.append(name)


def fixture(name):
    with open(os.path.join(common.REPO, "tests", "fixtures", name)) as f:
        return f.read()


def main():
    # ---- IfaceTrace
    batch = c01.fixture_batch()
    rep = common.Report("SELFTEST", "other")
    good = copy.deepcopy(batch[0])
    bad1 = copy.deepcopy(batch[0]); bad1["id"] = "qualifier-flipped"
    def flip(x):
        if isinstance(x, dict):
            if set(x) == {"qn", "args", "const", "q", "basic"} and x["qn"]:
                x["const"] = not x["const"]
                return True
            return any(flip(v) for v in x.values())
        if isinstance(x, list):
            return any(flip(v) for v in x)
        return False
    flip(bad1["tree"])
    bad2 = copy.deepcopy(batch[0]); bad2["id"] = "token-removed"
    del bad2["toks"][len(bad2["toks"]) // 2]
    import tempfile
    fd, path = tempfile.mkstemp(suffix=".json")
    with os.fdopen(fd, "w") as f:
        json.dump([good, bad1, bad2], f)
    r = tlc.run("IfaceTrace", "IfaceTrace.cfg", env={"TRACE_FILE": path}, timeout=300)
    os.unlink(path)
    v = {t[1]: t[2] for t in r.by_tag("VERDICT")}
    expect("IfaceTrace accepts the recorded fixture", v[good["id"]] == "", v)
    expect("IfaceTrace rejects a flipped const flag", v["qualifier-flipped"] != "", v)
    expect("IfaceTrace rejects a removed token", v["token-removed"] != "", v)
    # ---- PyTrace
    ob = pycheck.observe(fixture("class.i"))
    base = {"id": "good", "inst": ob["inst"], "opts": {"top": [], "ignore": [], "ser": False},
            "events": ob["scan"]["events"], "includes": ob["scan"]["includes"],
            "export": [l for l in ob["scan"]["export"].split("\n") if l.strip()]}
    b1 = copy.deepcopy(base); b1["id"] = "callee-changed"
    for e in b1["events"]:
        if e["ev"] == "def" and e["callee"].startswith("self->"):
            e["callee"] = "self->somethingElse"
            break
    b2 = copy.deepcopy(base); b2["id"] = "event-removed"
    b2["events"] = [e for i, e in enumerate(b2["events"]) if i != 3]
    b3 = copy.deepcopy(base); b3["id"] = "class-misplaced"
    for e in b3["events"]:
        if e["ev"] == "class":
            e["module"] = "m_nowhere"
            break
    v, _ = pycheck.validate([base, b1, b2, b3])
    expect("PyTrace accepts class.i", v["good"] == [], v["good"])
    expect("PyTrace rejects a changed callee with a C04 clause", any(c.startswith("C04:callee") for c in v["callee-changed"]), v["callee-changed"])
    expect("PyTrace rejects a removed registration (missing binding)", any("C03:missing-binding" in c for c in v["event-removed"]), v["event-removed"])
    expect("PyTrace rejects a class placed in a module that was never created", any("C03:" in c for c in v["class-misplaced"]), v["class-misplaced"])
    # ---- MexTrace
    om = mexcheck.observe(fixture("inheritance.i"), module_name="mod")
    mb = {"id": "good", "inst": om["inst"], "opts": {"ignore": [], "ser": False}, "files": om["files"], "cpp": om["cpp"], "ncpp": om["ncpp"]}
    m1 = copy.deepcopy(mb); m1["id"] = "cases-swapped"
    m1["cpp"]["cases"][5]["routine"], m1["cpp"]["cases"][6]["routine"] = m1["cpp"]["cases"][6]["routine"], m1["cpp"]["cases"][5]["routine"]
    m2 = copy.deepcopy(mb); m2["id"] = "unwrap-index-shifted"
    for rt in m2["cpp"]["routines"]:
        if rt["unwraps"]:
            rt["unwraps"][0]["index"] += 1
            break
    m3 = copy.deepcopy(mb); m3["id"] = "file-removed"
    m3["files"] = m3["files"][1:]
    m4 = copy.deepcopy(mb); m4["id"] = "id-duplicated"
    m4["files"][0]["delete_id"] = m4["files"][0]["ctor"]["collector_id"]
    v, _ = mexcheck.validate([mb, m1, m2, m3, m4])
    known = lambda cl: "/" in cl
    expect("MexTrace accepts inheritance.i (known findings aside)", all(known(c) for c in v["good"]), v["good"])
    expect("MexTrace rejects swapped switch cases with a C05 clause", any(c.startswith("C05:") for c in v["cases-swapped"]), v["cases-swapped"])
    expect("MexTrace rejects a shifted unwrap index with a C06 clause", any(c.startswith("C06:") and "unwrapping" in c for c in v["unwrap-index-shifted"]), v["unwrap-index-shifted"])
    expect("MexTrace rejects a missing file with a C10 clause", any(c.startswith("C10:toolbox-files") for c in v["file-removed"]), v["file-removed"])
    expect("MexTrace rejects a duplicated id with a C05 clause", any(c.startswith("C05:call-site-ids") for c in v["id-duplicated"]), v["id-duplicated"])
    # ---- WrapTrace: recorded run of each generator on a fixture; corrupted copies must be rejected
    import c07
    import layout as _layout
    import lexer as _lexer
    toks = _lexer.lex(fixture("functions.i"))
    runs = []
    for which in ("pybind", "matlab"):
        t = c07.record_run(("fixture", toks, ("none", 0, 0), which)) if toks else None
        if t:
            t["id"] = which + "-good"
            runs.append(t)
            late = copy.deepcopy(t); late["id"] = which + "-fails-after-writing"; late["events"][-1]["ok"] = False
            runs.append(late)
            early = copy.deepcopy(t); early["id"] = which + "-writes-before-generating"
            gi = [i for i, e in enumerate(early["events"]) if e["ev"] == "Generate"][0]
            wi = [i for i, e in enumerate(early["events"]) if e["ev"] == "Write"][0]
            early["events"].insert(gi, early["events"].pop(wi))
            runs.append(early)
            lost = copy.deepcopy(t); lost["id"] = which + "-write-event-removed"
            names = [e["name"] for e in lost["events"] if e["ev"] == "Write"]
            del lost["events"][[i for i, e in enumerate(lost["events"]) if e["ev"] == "Write" and names.count(e["name"]) == 1][-1]]
            runs.append(lost)
    fd, path = tempfile.mkstemp(suffix=".json")
    with os.fdopen(fd, "w") as f:
        json.dump([{"id": t["id"], "input": t["input"], "events": t["events"]} for t in runs], f)
    rwt = tlc.run("WrapTrace", "WrapTrace.cfg", env={"TRACE_FILE": path}, timeout=300)
    os.unlink(path)
    wv = {t[1]: t[2] for t in rwt.by_tag("VERDICT")}
    for which in ("pybind", "matlab"):
        expect("WrapTrace accepts the recorded %s run" % which, wv.get(which + "-good") == "", wv)
        expect("WrapTrace rejects a %s run that fails after writing" % which, wv.get(which + "-fails-after-writing", "") != "", wv)
        expect("WrapTrace rejects a %s run that writes before generating" % which, wv.get(which + "-writes-before-generating", "") != "", wv)
        expect("WrapTrace rejects a %s run with a removed Write event" % which, wv.get(which + "-write-event-removed", "") != "", wv)
    rwm = tlc.run("Wrap", "Wrap.cfg", workers=2, timeout=300, coverage=True)
    for act in ("Parse", "Instantiate", "Write", "Finish"):
        expect("Wrap action %s taken" % act, rwm.coverage.get(act, (0, 0))[1] > 0, rwm.coverage.get(act))
    # ---- PyCall: a built module executes its plan; a plan whose expectation is altered is NOT matched
    import layout as _lay
    import pycallcheck
    import pyexec
    import shutil
    pch = pyexec.ensure_pch()
    ccs, _r = cases.simulate(n=10, seed=4, target=12, members=8, profile="call")
    done = False
    for c in ccs:
        text = _lay.render(c["toks"])
        ob = pycheck.observe(text)
        if ob["outcome"] != "ok" or len(set(pycallcheck.class_cpps(ob["inst"]))) != len(pycallcheck.class_cpps(ob["inst"])):
            continue
        lex = pycheck.lex_facts(ob["inst"])
        lex["st"] = {x["cpp"]: x["st"] for x in ob["spell"]}
        plans, _rt = pycallcheck.plans_for([{"id": "m", "inst": ob["inst"], "lex": lex}])
        plan = plans["m"]
        idx = [k for k, st in enumerate(plan) if st["op"] in ("func", "method", "static", "new") and len(st["pos"]) >= 2 and st["pos"][0] != st["pos"][1]]
        if not idx:
            continue
        d = tempfile.mkdtemp(prefix="selfx_")
        try:
            b = pyexec.build(d, text, c["tree"], pch)
            expect("PyCall: the generated module builds against the rendered library", b[0] == "ok", b)
            obs = pyexec.run_plan(d, plan)
            bad = [pycallcheck.judge(st, o) for st, o in zip(plan, obs) if pycallcheck.judge(st, o)]
            expect("PyCall: every step of the plan matches the real module (%d steps)" % len(plan), not bad, bad[:3])
            plan2 = copy.deepcopy(plan)
            k = idx[0]
            plan2[k]["pos"][0], plan2[k]["pos"][1] = plan2[k]["pos"][1], plan2[k]["pos"][0]      # the CALL changes, the expectation does not
            obs2 = pyexec.run_plan(d, plan2)
            expect("PyCall: swapping two arguments of one call is noticed at that step", pycallcheck.judge(plan2[k], obs2[k]) != "",
                   (plan2[k], obs2[k]))
            plan3 = copy.deepcopy(plan)
            plan3[k]["log"] = [plan3[k]["log"][0].replace("(", "_other(", 1)]                       # another entity expected
            expect("PyCall: an expectation naming another entity is not matched",
                   pycallcheck.judge(plan3[k], obs[k]) == "C04:binding-does-not-forward-as-declared", obs[k])
        finally:
            shutil.rmtree(d, ignore_errors=True)
        done = True
        break
    expect("PyCall: a call-profile module with a two-argument call was found", done)
    # ---- coverage of the machine specs (vacuity)
    cfg = cases.EXH_CFG.format(universe="ns", typedepth=0, maxargs=0, target=3, members=1, rich="FALSE", maxitems=3)
    rc = tlc.run("IfaceExh", cfg_text=cfg, workers=1, timeout=600, coverage=True)
    for act in ("OpenNs", "CloseClass", "Finish"):
        expect("IfaceDerive action %s taken (TLC coverage)" % act, rc.coverage.get(act, (0, 0))[1] > 0, rc.coverage.get(act))
    # the other actions sit under quantifiers of Next (TLC reports them by location): witness them by their effect
    derived = [json.loads(t[1]) for t in rc.by_tag("CASE")]
    def has(pred):
        def walk(items):
            return any(pred(d) or (d["k"] == "namespace" and walk(d["items"])) for d in items)
        return any(walk(c["tree"]) for c in derived)
    expect("IfaceDerive CloseNs taken (a closed namespace was derived)", has(lambda d: d["k"] == "namespace"))
    expect("IfaceDerive OpenClass / AddMember taken (a class with a member was derived)",
           has(lambda d: d["k"] == "class" and (d["props"] or d["methods"])))
    expect("IfaceDerive AddLeaf taken (a leaf declaration was derived)", has(lambda d: d["k"] in ("function", "enum", "variable", "include", "typedef", "fwd")))
    rm = tlc.run("MexIds", "MexIds.cfg", workers=common.NCPU, timeout=900, coverage=True)
    for act in ("AllocClass", "StartEmit", "EmitStep"):
        expect("MexIds action %s taken" % act, rm.coverage.get(act, (0, 0))[1] > 0, rm.coverage.get(act))
    rd = tlc.run("DocStringMC", "DocStringMC.cfg", workers=4, timeout=600, coverage=True)
    expect("DocStringMC explores lookups", rd.distinct > 100, rd.distinct)
    rw = tlc.run("WrapperObject", cfg_text='SPECIFICATION Spec\nCONSTANTS\n  Files = {"f1", "f2"}\n  MaxLen = 2\n  Leaks = TRUE\nINVARIANT HistoryIndependent\nCHECK_DEADLOCK FALSE\n',
                 workers=1, timeout=300, allow_violation=True)
    expect("WrapperObject: the forbidden (leaky) machine violates HistoryIndependent", rw.violation is not None, rw.violation)
    print("\n%d demonstrations failed" % len(FAIL) if FAIL else "\nall demonstrations behaved as expected")
    return 1 if FAIL else 0


if __name__ == "__main__":
    sys.exit(main())
