"""C15 - ignoring or removing a class affects that class only.
spec/Variants.tla!Removals renders, for every derived module, the module with one declaration removed (TLC,
RemovalTrace).  Three real runs per (module, declaration):
   A = Gen(module, ignore = I)      B = Gen(module, ignore = I + {class})      C = Gen(module - declaration, ignore = I)
   class:        B == C   (ignore is equivalent to removal)   and   A minus the class's artefacts == C
   other decl:   A minus the declaration's artefacts == C
pybind: registration events (harness/proj_py.py) compared as sequences, and B == C byte for byte.
MATLAB: file trees with gateway ids canonicalised by rank (the property allows consistent renumbering)."""
import json
import os
import random
import re
import sys
import tempfile

sys.path.insert(0, os.path.dirname(os.path.dirname(os.path.abspath(__file__))))
import cases  # noqa: E402
import common  # noqa: E402
import gen  # noqa: E402
import instcheck  # noqa: E402
import layout  # noqa: E402
import proj  # noqa: E402
import pycheck  # noqa: E402
import tlc  # noqa: E402

PID = "C15"


def canon_ids(files):
    """replace gateway ids by their rank in the switch of the MEX source"""
    cpp = [k for k in files if k.endswith("_wrapper.cpp")]
    if len(cpp) != 1:
        return {"<error>": "expected exactly one *_wrapper.cpp, found %r" % cpp}
    ids = [int(x) for x in re.findall(r"^\s*case (\d+):", files[cpp[0]], re.M)]
    rank = {n: i for i, n in enumerate(ids)}

    def sub(m):
        n = int(m.group(2))
        return "%s#%s" % (m.group(1), rank.get(n, "?%d" % n))
    out = {}
    for k, v in files.items():
        v = re.sub(r"(_wrapper\()(\d+)", sub, v)
        v = re.sub(r"(case )(\d+)(?=:)", sub, v)
        v = re.sub(r"(\w_)(\d+)(?=\((?:int nargout|nargout, out))", sub, v)
        out[k] = v
    return out


def py_events(text, ignore):
    ob = pycheck.observe(text, ignore=ignore)
    if ob["outcome"] != "ok":
        return ob["outcome"], None, None
    return "ok", ob["scan"]["events"], ob["text"]


def belongs(ev, cpps, names, nsmod):
    """is the event an artefact of one of the classes `cpps` (or of the free declaration `names` in module nsmod)?"""
    if ev["ev"] == "class":
        return ev["cpp"] in cpps
    if ev["ev"] in ("init", "def", "pickle", "prop", "operator") and ev.get("cls"):
        return ev["cls"] in cpps
    if ev["ev"] == "enum":
        return any(ev["cpp"].startswith(c + "::") for c in cpps) or (ev["name"] in names and ev["module"] == nsmod)
    if ev["ev"] in ("attr",):
        return ev["name"] in names and ev["module"] == nsmod
    if ev["ev"] == "func":
        return ev["module"] == nsmod and ev["callee"].split("<")[0].split("::")[-1] in names
    return False


def job(item):
    cid, origin, toks, removals, seed = item
    rng = random.Random(seed)
    text = layout.render(toks)
    bad = []
    n = 0
    first = pycheck.observe(text)
    if first["outcome"] != "ok":
        return {"id": cid, "origin": origin, "bad": bad, "n": 0}
    inst = first["inst"]
    evA = first["scan"]["events"]
    ser = rng.random() < 0.5 or "serialize" in text      # both serialization settings (the flag adds artefacts per class)
    mA = gen.matlab_files([text], ser=ser)

    def classes_named(items, nspath, name, path=()):
        out = []
        for d in items:
            if d.get("k") == "namespace":
                out += classes_named(d["items"], nspath, name, path + (d["name"],))
            elif d.get("k") == "class" and list(path) == nspath:
                prefix = "::".join(nspath + [name])
                if d["cpp"] == prefix or d["cpp"].startswith(prefix + "<"):
                    out.append(d)
        return out
    # only declarations whose name is unique in their scope can be told apart from their namesakes in the output
    count = {}
    for r in removals:
        key = (tuple(r["nspath"]), r["name"])
        count[key] = count.get(key, 0) + 1
    # a class-scoped enum / a class / a function elsewhere with the same name would also confuse `belongs`
    allnames = {}
    for r in removals:
        allnames[r["name"]] = allnames.get(r["name"], 0) + 1
    picks = [r for r in removals if r["k"] in ("class", "function", "enum", "variable", "include")
             and count[(tuple(r["nspath"]), r["name"])] == 1 and allnames[r["name"]] == 1]
    rng.shuffle(picks)
    # classes with a serialize member first: their removal must not change what the flag adds to OTHER classes
    def serializable(r):
        return r["k"] == "class" and any(m["cpp"] in ("serialize", "serializable") for d in classes_named(inst, r["nspath"], r["name"])
                                         for m in d["methods"])
    picks.sort(key=lambda r: 0 if serializable(r) else 1)
    for r in picks[:3]:
        textC = layout.render(r["toks"])
        obC = pycheck.observe(textC)
        if obC["outcome"] != "ok":
            continue            # the removed declaration was referred to by its definition (e.g. typedef target)
        n += 1
        evC = obC["scan"]["events"]
        top = []
        nsmod = "m_" + "_".join(r["nspath"])
        if r["k"] == "class":
            insts = classes_named(inst, r["nspath"], r["name"])
            cpps = [d["cpp"] for d in insts]
            if not cpps:
                continue
            # pybind: ignore == remove (byte for byte), and A minus artefacts == C
            oB, evB, txtB = py_events(text, cpps)
            if oB != "ok" or txtB != obC["text"]:
                bad.append(("pybind-ignore-differs-from-removal", "", {"class": cpps, "removed_text": textC,
                                                                      "detail": oB if oB != "ok" else first_diff(txtB, obC["text"])}))
            rest = [e for e in evA if not belongs(e, cpps, [], nsmod)]
            if rest != evC:
                bad.append(("pybind-removal-changes-other-bindings", "", {"class": cpps, "removed_text": textC,
                                                                         "detail": proj.diff(rest, evC)}))
            # MATLAB: ignore entry = namespaces::InstantiatedName
            mnames = ["::".join(r["nspath"] + [d["name"]]) for d in insts]
            mnames_try = [mnames]
            mC = gen.matlab_files([textC], ser=ser)
            if mA[0] == "ok" and mC[0] == "ok":
                ok_any = False
                details = []
                for names in mnames_try:
                    mB = gen.matlab_files([text], ignore=names, ser=ser)
                    if mB[0] == "ok" and canon_ids(mB[1]) == canon_ids(mC[1]):
                        ok_any = True
                        break
                    details.append(mB[1:3] if mB[0] != "ok" else tree_diff(canon_ids(mB[1]), canon_ids(mC[1])))
                # the artefacts of every OTHER entity are those of the original module (gateway ids aside)
                def masked(v):
                    return re.sub(r"(_wrapper\()(\d+)", r"\1#", v)
                for path_, body in sorted(mC[1].items()):
                    if not path_.endswith(".m"):
                        continue
                    if path_ not in mA[1]:
                        bad.append(("matlab-removal-adds-files-for-other-entities", "", {"class": mnames, "removed_text": textC,
                                                                                        "serialization": ser, "file": path_}))
                        break
                    if masked(mA[1][path_]) != masked(body):
                        bad.append(("matlab-removal-changes-other-entities", "", {"class": mnames, "removed_text": textC, "serialization": ser,
                                                                                 "file": path_, "detail": first_diff(masked(mA[1][path_]), masked(body))}))
                        break
                if not ok_any:
                    cls = ""
                    bad.append(("matlab-ignore-differs-from-removal", cls, {"class": mnames, "removed_text": textC, "serialization": ser,
                                                                           "detail": str(details)[:600]}))
        else:
            rest = [e for e in evA if not belongs(e, [], [r["name"]], nsmod)]
            if r["k"] == "include":
                rest = evA
            if rest != evC:
                bad.append(("pybind-removing-unrelated-declaration-changes-bindings", "",
                            {"decl": [r["k"], r["name"]], "removed_text": textC, "detail": proj.diff(rest, evC)}))
    for b in bad:
        b[2]["text"] = text
    return {"id": cid, "origin": origin, "bad": bad, "n": n}


def first_diff(a, b):
    for i, (x, y) in enumerate(zip(a, b)):
        if x != y:
            return "at %d: %r vs %r" % (i, a[max(0, i - 60):i + 60], b[max(0, i - 60):i + 60])
    return "length %d vs %d" % (len(a), len(b))


def tree_diff(a, b):
    if set(a) != set(b):
        return "files only in ignore-run: %s; only in removal-run: %s" % (sorted(set(a) - set(b)), sorted(set(b) - set(a)))
    for k in sorted(a):
        if a[k] != b[k]:
            return "%s: %s" % (k, first_diff(a[k], b[k]))
    return ""


def main():
    rep = common.Report(PID, "model_checking")
    rng = random.Random(rep.seed)
    thorough = rep.tier == "thorough"
    cs, r = cases.simulate(n=1500 if thorough else 160, seed=rep.seed, target=9)
    ex, r2 = cases.exhaustive("ns", target=4, members=1)
    ex = common.cover_pairs(ex, rng, min(len(ex), 2000 if thorough else 200))
    ex2, r3 = cases.exhaustive("inst", target=40, maxitems=2)
    ex2 = rng.sample(ex2, min(len(ex2), 700 if thorough else 100))
    sc, r4 = cases.scenarios("serializable")
    allc = cs + ex + ex2 + sc
    for x in (r, r2, r3, r4):
        rep.count("states", max(x.distinct, x.generated))
        rep.count("transitions", x.generated)
    for i, c in enumerate(allc):
        c["id"] = "c%d" % i
    removals = {}
    chunks = [allc[k:k + 300] for k in range(0, len(allc), 300)]

    def run_chunk(ch):
        fd, path = tempfile.mkstemp(prefix="removals_", suffix=".json")
        try:
            with os.fdopen(fd, "w") as f:
                json.dump([{"id": c["id"], "cst": c["cst"], "caps": instcheck.idents_of(c["tree"])} for c in ch], f)
            return tlc.run("RemovalTrace", "RemovalTrace.cfg", env={"TRACE_FILE": path}, timeout=1800)
        finally:
            os.unlink(path)
    import concurrent.futures
    with concurrent.futures.ThreadPoolExecutor(max_workers=6) as exr:
        for rr in exr.map(run_chunk, chunks):
            rep.count("states", rr.distinct)
            rep.count("transitions", rr.generated)
            for t in rr.by_tag("REMOVALS"):
                removals[t[1]] = json.loads(t[2])
    if len(removals) != len(allc):
        raise RuntimeError("RemovalTrace: %d results for %d cases" % (len(removals), len(allc)))
    items = [(c["id"], c["origin"], c["toks"], removals[c["id"]], rep.seed * 7919 + i) for i, c in enumerate(allc)
             if removals[c["id"]]]
    res = common.pmap(job, items, chunksize=2)
    n = 0
    for o in res:
        n += o["n"]
        for clause, cls, wit in o["bad"]:
            wit["origin"] = o["origin"]
            rep.violation(clause, cls, wit)
    rep.count("traces_validated_against_impl", n)
    rep.count("evaluations", n)
    rep.cov["distinct_nontrivial"] = n
    rep.cov["rule"] = "one evaluation = one (module, removed declaration) triple of runs (A, B, C) for both generators"
    rep.sample({"module": " ".join(allc[0]["toks"])[:300]})
    return rep.finish()


if __name__ == "__main__":
    try:
        sys.exit(main())
    except (tlc.TLCError, proj.ProjectionError, RuntimeError) as e:
        print("MACHINERY FAILURE: %s" % e, file=sys.stderr)
        sys.exit(2)
