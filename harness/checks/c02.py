"""C02 - template instantiation is exact, capture-free substitution  /  C08 - exactly the requested instantiations.
Both checks share this driver (c08.py calls main('C08')).
spec/Instantiate.tla is the oracle: TLC evaluates InstModule on the tree of every case (derivations of IfaceDerive:
random walks, the path-exhaustive type universe with rich template arguments, the instantiation-shape universe;
fixtures) and the harness compares the instantiated tree the implementation builds (proj_inst: names, C++ spellings
via to_cpp(), qualifier flags, order, scope, pass-through) leaf by leaf.  C02 owns the 'type' mismatches, C08 the
count / order / name / cpp / pass-through / error-outcome mismatches.  A second TLC run with Mode = "dev" evaluates the
analysed deviations of the pinned tree; a mismatch is a KNOWN-FINDING only if the observed value equals that."""
import glob
import os
import random
import sys

sys.path.insert(0, os.path.dirname(os.path.dirname(os.path.abspath(__file__))))
import cases  # noqa: E402
import common  # noqa: E402
import instcheck  # noqa: E402
import layout  # noqa: E402
import pipeline  # noqa: E402
import proj  # noqa: E402
import tlc  # noqa: E402


def observe_job(case):
    text = layout.render(case["toks"])
    return instcheck.observe_inst(text)


def fixture_cases():
    out = []
    for f in sorted(glob.glob(os.path.join(common.REPO, "tests", "fixtures", "*.i"))):
        with open(f) as fh:
            text = fh.read()
        r = pipeline.parse_text(text)
        if r[0] != "ok":
            raise RuntimeError("fixture %s does not parse" % f)
        out.append({"origin": os.path.basename(f), "text": text, "tree": proj.proj_tree(r[1])})
    return out


def fixture_job(c):
    return instcheck.observe_inst(c["text"])


def main(pid):
    rep = common.Report(pid, "model_checking")
    rng = random.Random(rep.seed)
    thorough = rep.tier == "thorough"
    mine = {"C02": ("type",), "C08": ("count", "name", "structure", "outcome")}[pid]
    allcases = []
    if pid == "C02":
        plan = [("sim", dict(n=3000 if thorough else 300, target=10)),
                ("exh", dict(universe="types", typedepth=2 if thorough else 1, target=2, members=1, rich=True,
                             sample=40000 if thorough else 2500)),
                ("exh", dict(universe="sigs", maxargs=2, target=2, members=1, rich=True, sample=None if thorough else 400)),
                ("exh", dict(universe="inst", target=40, maxitems=2))]
    else:
        plan = [("sim", dict(n=3000 if thorough else 300, target=12)),
                ("exh", dict(universe="inst", target=40, maxitems=3 if thorough else 2,
                             sample=None if thorough else None)),
                ("exh", dict(universe="classes", target=4, members=3, sample=3000 if thorough else 300)),
                ("exh", dict(universe="ns", target=3, members=1, sample=None if thorough else 300))]
        if not thorough:
            plan.append(("exh", dict(universe="inst", target=40, maxitems=3, sample=1200)))
    plan.append(("scenario", dict(family="typedefs")))
    for kind, kw in plan:
        if kind == "sim":
            cs, r = cases.simulate(seed=rep.seed, **kw)
        elif kind == "scenario":
            cs, r = cases.scenarios(**kw)
        else:
            sample = kw.pop("sample", None)
            cs, r = cases.exhaustive(**kw)
            if sample is not None and len(cs) > sample:
                cs = rng.sample(cs, sample)
        rep.count("states", max(r.distinct, r.generated))
        rep.count("transitions", r.generated)
        allcases += cs
    for i, c in enumerate(allcases):
        c["id"] = "c%d" % i
    obs = common.pmap(observe_job, allcases, chunksize=16)
    fx = fixture_cases()
    for i, c in enumerate(fx):
        c["id"] = "f%d" % i
    fobs = common.pmap(fixture_job, fx, chunksize=1)
    allcases += fx
    obs += fobs
    # oracle: TLC evaluates Instantiate!InstModule on every tree (chunks in parallel JVMs)
    chunks = [allcases[k:k + 700] for k in range(0, len(allcases), 700)]
    exp, dev = {}, {}
    def run_chunk(args):
        ch, mode = args
        o, r = instcheck.oracle([{"id": c["id"], "tree": c["tree"]} for c in ch], mode)
        return mode, o, r.distinct, r.generated
    import concurrent.futures
    with concurrent.futures.ThreadPoolExecutor(max_workers=8) as ex:
        for mode, o, d, g in ex.map(run_chunk, [(ch, m) for ch in chunks for m in ("spec", "dev")]):
            (exp if mode == "spec" else dev).update(o)
            rep.count("states", d)
            rep.count("transitions", g)
    n_types = n_subst = 0
    other = {}
    outcomes = {}
    for c, ob in zip(allcases, obs):
        e, d = exp[c["id"]], dev[c["id"]]
        experr = instcheck.has_error(e)
        if instcheck.has_undefined(e):
            outcomes[("-", "out-of-dialect")] = outcomes.get(("-", "out-of-dialect"), 0) + 1
            continue
        outcomes[(ob[0], experr)] = outcomes.get((ob[0], experr), 0) + 1
        wit = {"origin": c["origin"], "text": c.get("text") or layout.render(c["toks"])}
        if ob[0] == "parse-reject":
            continue    # C01's business
        if ob[0] == "impossible-tree":
            if "type" in mine:
                wit["detail"] = ob[2]
                rep.violation("instantiated-tree-has-impossible-shape", "", wit)
            continue
        if ob[0] == "exc":
            if not experr and "outcome" in mine:
                wit["detail"] = "instantiation raised %s: %s but the module is instantiable per spec" % (ob[1], ob[2])
                cls = ""
                if ob[1] == "ValueError" and "Cannot find class" in ob[2]:
                    cls = "TypedefTargetInAlreadyInstantiatedNamespace"
                rep.violation("instantiation-rejects-valid-module", cls, wit)
            continue
        if experr:
            if "outcome" in mine:
                wit["detail"] = "spec: typedef target missing/ambiguous or arity mismatch; implementation accepted"
                rep.violation("instantiation-accepts-unresolvable-typedef", "", wit)
            continue
        for cat, path, ev, ov, cls in instcheck.mismatches(e, ob[1], d):
            if cat in mine:
                w = dict(wit)
                w.update({"path": path, "expected": ev, "observed": ov})
                rep.violation({"type": "substituted-type-differs", "count": "instantiation-count-differs",
                               "name": "instantiation-name-or-cpp-differs",
                               "structure": "instantiated-structure-differs"}[cat], cls, w)
            else:
                other[cat] = other.get(cat, 0) + 1
    rep.count("traces_validated_against_impl", len(allcases))
    rep.count("evaluations", len(allcases))
    rep.cov["distinct_nontrivial"] = len({tuple(c["toks"]) if "toks" in c else c["origin"] for c in allcases})
    rep.cov["rule"] = "one case = one interface file; distinct token sequences; every case is instantiated by spec and code"
    rep.cov["outcomes(observed, spec_says_error)"] = {str(k): v for k, v in outcomes.items()}
    rep.cov["mismatches_belonging_to_other_property"] = other
    for c in allcases[:2]:
        rep.sample({"origin": c["origin"], "text": " ".join(c["toks"])[:300]})
    rep.assumptions += ["C++ spellings are compared modulo blanks after commas",
                        "Caps table (first letter upper-cased) is a lexical fact supplied by the harness"]
    return rep.finish()


if __name__ == "__main__":
    try:
        sys.exit(main("C02"))
    except (tlc.TLCError, proj.ProjectionError, RuntimeError) as e:
        print("MACHINERY FAILURE: %s" % e, file=sys.stderr)
        sys.exit(2)
