"""C10 (driver shared with c05.py, see there)."""
import os
import sys

sys.path.insert(0, os.path.dirname(os.path.abspath(__file__)))
sys.path.insert(0, os.path.dirname(os.path.dirname(os.path.abspath(__file__))))
import c05  # noqa: E402
import proj  # noqa: E402
import tlc  # noqa: E402

if __name__ == "__main__":
    try:
        sys.exit(c05.main("C10"))
    except (tlc.TLCError, proj.ProjectionError, RuntimeError) as e:
        print("MACHINERY FAILURE: %s" % e, file=sys.stderr)
        sys.exit(2)
