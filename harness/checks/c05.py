"""C05 - MATLAB call-site ids and the MEX dispatch table agree / C06 - overload guards, default expansion and C++
marshalling line up / C10 - the toolbox contains exactly the declared classes, functions, enums.
Shared driver (c06.py and c10.py call main with their id).
spec/MexIds.tla model-checks the id allocation protocol of the generator (C05, design level).
spec/Mex.tla states what the toolbox must contain; for TLC-derived modules and fixtures x (ignore list, serialization)
the real generator runs, every .m file and the MEX source are scanned (harness/proj_m.py, proj_mexcpp.py) and TLC
(MexTrace) checks the three id tables against each other and every file / overload / routine against Mex.tla."""
import glob
import os
import random
import sys

sys.path.insert(0, os.path.dirname(os.path.dirname(os.path.abspath(__file__))))
import cases  # noqa: E402
import common  # noqa: E402
import layout  # noqa: E402
import mexcheck  # noqa: E402
import proj  # noqa: E402
import tlc  # noqa: E402

KNOWN_GEN_EXC = {}


def class_names(inst, path=()):
    out = []
    for d in inst:
        if d.get("k") == "class":
            out.append("::".join(list(path) + [d["name"]]))
        elif d.get("k") == "namespace":
            out += class_names(d["items"], path + (d["name"],))
    return out


def unique_artefacts(inst):
    """C++ requires distinct names per scope; the toolbox has one file per class / enum / function name.  A module that
    declares the same name twice in one scope (the random pools are small) is not judged."""
    seen = set()

    def walk(items, path):
        for d in items:
            k = d.get("k")
            if k == "namespace":
                if not walk(d["items"], path + (d["name"],)):
                    return False
            elif k in ("class", "enum", "function"):
                key = (path, d["name"])
                kind = "function" if k == "function" else "type"
                if (key, "type") in seen and kind == "type":
                    return False
                if (key, "function") in seen and kind == "type" or (key, "type") in seen and kind == "function":
                    return False
                seen.add((key, kind))
                if k == "class" and d["hasbase"] and d["base"]["name"] in ("Matrix", "Vector", "Point2", "Point3"):
                    return False        # Eigen types are not base classes
                if k == "class":
                    names = [e["name"] for e in d["enums"]]
                    if len(names) != len(set(names)):
                        return False
                    if d["name"] in [x for (pp, x), kk in seen if pp == path + ()] and False:
                        return False
        return True
    # a class-scoped enum package +Class collides with a namespace of the same name: treat as duplicate too
    return walk(inst, ())


def job(item):
    cid, origin, text, seed, nopts = item
    rng = random.Random(seed)
    first = mexcheck.observe(text)
    res = [(cid + "/0", origin, text, {"ignore": [], "ser": False}, first)]
    if "inst" in first and nopts > 1:
        names = class_names(first["inst"])
        for k in range(1, nopts):
            ig = []
            r = rng.random()
            if names and r < 0.5:
                ig = rng.sample(names, 1)
            elif r < 0.6:
                ig = ["No::Such"]
            o = {"ignore": ig, "ser": rng.random() < 0.6}
            res.append(("%s/%d" % (cid, k), origin, text, o, mexcheck.observe(text, ignore=o["ignore"], ser=o["ser"])))
        if origin.startswith("scenario(special"):
            # the directed family: every class is ignored once (a base while its derived class stays, and vice versa)
            for k2, nm in enumerate(names):
                o = {"ignore": [nm], "ser": False}
                res.append(("%s/i%d" % (cid, k2), origin, text, o, mexcheck.observe(text, ignore=o["ignore"], ser=False)))
    for r in res:
        r[4].pop("raw", None)
    return res


def classify_exc(ob):
    tb = ob.get("tb", "")
    if ob["outcome"] == "gen-exc:TypeError" and "unhashable type: 'Typename'" in ob.get("msg", ""):
        return "TemplateParameterInTemplateArgumentCrashesMatlabGenerator"
    if ob["outcome"] == "gen-exc:AttributeError" and "'str' object has no attribute 'return_type'" in ob.get("msg", ""):
        return "TemplatedMethodReturningPairCrashesMatlabGenerator"
    return ""


def main(pid):
    rep = common.Report(pid, "model_checking")
    rng = random.Random(rep.seed)
    thorough = rep.tier == "thorough"
    prefix = pid + ":"
    if pid == "C05":
        r0 = tlc.run("MexIds", "MexIds.cfg", workers=common.NCPU, timeout=1500)
        rep.count("states", r0.distinct)
        rep.count("transitions", r0.generated)
        rep.cov["protocol_model"] = {"distinct_states": r0.distinct, "depth": r0.depth}
        if thorough:
            # deeper bounds of the same protocol: one class with many members of every role (wide), and a chain of
            # four classes whose ids depend on every unnamed virtual slot before them (long)
            for tag, cfg in (("wide", "MexIds_wide.cfg"), ("long", "MexIds_long.cfg")):
                rd = tlc.run("MexIds", cfg, workers=common.NCPU, timeout=3000)
                rep.count("states", rd.distinct)
                rep.count("transitions", rd.generated)
                rep.cov["protocol_model_" + tag] = {"distinct_states": rd.distinct, "depth": rd.depth}
    plan = [("sim", dict(n=2500 if thorough else 200, target=10)),
            ("exh", dict(universe="classes", target=4, members=3, sample=4000 if thorough else 250)),
            ("exh", dict(universe="sigs", maxargs=3 if thorough else 2, target=2, members=1, sample=5000 if thorough else 400)),
            ("exh", dict(universe="ns", target=4, members=1, sample=3000 if thorough else 200, pairs=True)),
            ("exh", dict(universe="types", typedepth=1, target=2, members=1, sample=4000 if thorough else 250)),
            ("exh", dict(universe="inst", target=40, maxitems=2, sample=None if thorough else 150))]
    allcases = []
    plan += [("scenario", dict(family="members")), ("scenario", dict(family="serializable")), ("scenario", dict(family="enums")),
             ("scenario", dict(family="special"))]
    for kind, kw in plan:
        if kind == "sim":
            cs, r = cases.simulate(seed=rep.seed, **kw)
        elif kind == "scenario":
            cs, r = cases.scenarios(**kw)
        else:
            sample = kw.pop("sample", None)
            pairs = kw.pop("pairs", False)
            cs, r = cases.exhaustive(**kw)
            if sample is not None and len(cs) > sample:
                cs = common.cover_pairs(cs, rng, sample) if pairs else rng.sample(cs, sample)
        rep.count("states", max(r.distinct, r.generated))
        rep.count("transitions", r.generated)
        allcases += [(c["origin"], layout.render(c["toks"])) for c in cs]
    # witnesses of recorded findings that only the thorough universes derive
    allcases.append(("finding:C10-blank-in-instantiated-name", "template < T = { Tpl < unsigned char > , Key } > void f ( ) ;\n"))
    for f in sorted(glob.glob(os.path.join(common.REPO, "tests", "fixtures", "*.i"))):
        with open(f) as fh:
            allcases.append((os.path.basename(f), fh.read()))
    items = [("c%d" % i, origin, text, rep.seed * 100003 + i, 3 if thorough else 2)
             for i, (origin, text) in enumerate(allcases)]
    res = common.pmap(job, items, chunksize=4)
    batch, meta, outcomes = [], {}, {}
    for lst in res:
        for oid, origin, text, opts, ob in lst:
            outcomes[ob["outcome"]] = outcomes.get(ob["outcome"], 0) + 1
            meta[oid] = (origin, text, opts)
            if ob["outcome"] == "ok" and not unique_artefacts(ob["inst"]):
                outcomes["not-judged:duplicate-names"] = outcomes.get("not-judged:duplicate-names", 0) + 1
            elif ob["outcome"] == "ok":
                batch.append({"id": oid, "inst": ob["inst"], "opts": opts, "files": ob["files"], "cpp": ob["cpp"], "ncpp": ob["ncpp"]})
            elif ob["outcome"] == "unscannable" and any(" " in os.path.basename(p_) for p_ in ob.get("files", {})):
                # an instantiated name with a blank in it (template argument `unsigned char`): the file / function name is
                # not a MATLAB identifier - a C10 matter, and nothing else in the module can be scanned
                outcomes["instantiated-name-with-blank"] = outcomes.get("instantiated-name-with-blank", 0) + 1
                if pid == "C10":
                    rep.violation("C10:artefact-name-is-not-an-identifier", "MultiWordTypeInInstantiatedName",
                                  {"origin": origin, "text": text, "opts": opts,
                                   "files": [p_ for p_ in ob["files"] if " " in os.path.basename(p_)]})
            elif ob["outcome"] == "unscannable":
                raise RuntimeError("scanner cannot read generated MATLAB output (%s) for %s" % (ob["detail"], origin))
            elif ob["outcome"].startswith("gen-exc") and pid == "C10":
                rep.violation("C10:generator-raises-on-instantiable-module", classify_exc(ob),
                              {"origin": origin, "text": text, "opts": opts, "exception": ob["outcome"], "msg": ob.get("msg"),
                               "tb": ob.get("tb")})
    chunks = [batch[k:k + 300] for k in range(0, len(batch), 300)]
    import concurrent.futures
    verdicts = {}
    with concurrent.futures.ThreadPoolExecutor(max_workers=8) as ex:
        for v, r in ex.map(mexcheck.validate, chunks):
            verdicts.update(v)
            rep.count("states", r.distinct)
            rep.count("transitions", r.generated)
    other = {}
    nsites = 0
    for b in batch:
        nsites += len(b["cpp"]["cases"]) if b["cpp"] else 0
        for clause in verdicts[b["id"]]:
            body, _, cls = clause.partition("/")
            if body.startswith(prefix):
                origin, text, opts = meta[b["id"]]
                parts = body.split(":")
                what = parts[0] + ":" + parts[-1]
                rep.violation(what, cls, {"origin": origin, "text": text, "opts": opts, "where": ":".join(parts[1:-1])})
            else:
                other[body.split(":")[0]] = other.get(body.split(":")[0], 0) + 1
    rep.count("traces_validated_against_impl", len(batch))
    rep.count("evaluations", len(batch))
    rep.cov["gateway_ids_checked"] = nsites
    rep.cov["distinct_nontrivial"] = len({(meta[b["id"]][1], str(meta[b["id"]][2])) for b in batch if b["files"]})
    rep.cov["rule"] = "one evaluation = one (module, option set) whose toolbox was scanned and validated; non-trivial = at least one .m file"
    rep.cov["outcomes"] = outcomes
    rep.cov["clauses_of_other_properties_seen"] = other
    if batch:
        rep.sample({"text": meta[batch[0]["id"]][1][:300], "opts": meta[batch[0]["id"]][2],
                    "files": [f["path"] for f in batch[0]["files"]][:10]})
    if pid == "C06":
        import mexcallcheck
        mexcallcheck.run(rep, thorough, "C06")
        rep.assumptions += ["executed half: modules of the 'mexcall' profile (no float / unsigned char / templated functions or statics / "
                            "pointer-typed properties / raw-pointer results: these are recorded findings, witnessed by directed modules); the "
                            "MATLAB side is emulated from the scanned .m files (harness/mexmock/session_driver.cpp)"]
    rep.assumptions += ["the scanners harness/proj_m.py / proj_mexcpp.py (self-tested on the goldens, tools/selftest_scanners.py) are trusted",
                        "expectations are computed from the instantiated tree the implementation built"]
    return rep.finish()


if __name__ == "__main__":
    try:
        sys.exit(main("C05"))
    except (tlc.TLCError, proj.ProjectionError, RuntimeError) as e:
        print("MACHINERY FAILURE: %s" % e, file=sys.stderr)
        sys.exit(2)
