"""C13 - instantiations are independent of each other and of parameter spelling.
spec/Variants.tla defines the transformations (keep one combination, reverse the lists, rename parameters) on the
concrete syntax tree and TLC checks on the oracle (spec/InstLaws.tla) that the specified result is invariant under
them.  Binding: TLC (VariantTrace) renders the variants of every derivation; original and variants run through the
implementation (instantiated tree, per-class pybind blocks, full pybind text and MATLAB file tree for the renaming)
and the per-instantiation results must coincide."""
import json
import os
import random
import sys
import tempfile

sys.path.insert(0, os.path.dirname(os.path.dirname(os.path.abspath(__file__))))
import cases  # noqa: E402
import common  # noqa: E402
import gen  # noqa: E402
import instcheck  # noqa: E402
import layout  # noqa: E402
import proj  # noqa: E402
import tlc  # noqa: E402
from proj import instantiator, parser  # noqa: E402

PID = "C13"


def observe(text, full):
    """instantiated records keyed by (scope, kind, name) + per-class pybind block; optionally whole outputs"""
    try:
        m = parser.Module.parseString(text)
    except Exception as e:  # noqa: BLE001
        return {"outcome": "parse-reject:" + type(e).__name__}
    try:
        m = instantiator.instantiate_namespace(m)
    except Exception as e:  # noqa: BLE001
        return {"outcome": "inst-exc:" + type(e).__name__}
    w = gen.PybindWrapper(module_name="mod", top_module_namespaces=[""], ignore_classes=[],
                          module_template=gen.PYBIND_TPL)
    recs = {}
    order = []

    def walk(ns, path):
        for d in ns.content:
            if isinstance(d, parser.Namespace):
                walk(d, path + [d.name])
                continue
            r = proj.i_decl(d)
            key = "/".join(path) + "|" + r["k"] + "|" + r.get("name", r.get("header", ""))
            blk = ""
            if isinstance(d, instantiator.InstantiatedClass):
                try:
                    blk = w.wrap_instantiated_class(d) + w.wrap_enums(d.enums, d)
                except Exception as e:  # noqa: BLE001
                    blk = "EXC:" + type(e).__name__
            k2, n = key, 1
            while k2 in recs:
                n += 1
                k2 = "%s#%d" % (key, n)
            recs[k2] = (r, blk)
            order.append(k2)
    walk(m, [])
    out = {"outcome": "ok", "recs": recs, "order": order}
    if full:
        out["pybind"] = gen.pybind_text(text)[:3]
        out["matlab"] = gen.matlab_files([text])[:3]
    return out


def job(item):
    cid, origin, variants = item
    base = observe(layout.render(variants["orig"]), True)
    bad = []
    res = {"id": cid, "origin": origin, "bad": bad, "n": 0}
    for kind in ("renamed", "renamed2", "reversed", "single1", "single2", "single3"):
        toks = variants[kind]
        if toks == variants["orig"]:
            continue

        def add(clause, wit):
            wit["text"] = layout.render(variants["orig"])
            wit["variant"] = kind
            wit["variant_text"] = layout.render(toks)
            bad.append((clause, "", wit))
        res["n"] += 1
        v = observe(layout.render(toks), kind.startswith("renamed"))
        if v["outcome"] != base["outcome"]:
            add(kind + "-changes-outcome", {"base": base["outcome"], "variant_outcome": v["outcome"]})
            continue
        if base["outcome"] != "ok":
            continue
        if kind.startswith("renamed"):
            if v["order"] != base["order"]:
                add("renaming-changes-instantiations", {"base": base["order"], "variant_order": v["order"]})
                continue
            for k in base["order"]:
                if v["recs"][k] != base["recs"][k]:
                    d = proj.diff(base["recs"][k][0], v["recs"][k][0]) or "pybind block differs"
                    add("renaming-changes-instantiation", {"key": k, "detail": d})
                    break
            else:
                if v["pybind"] != base["pybind"]:
                    add("renaming-changes-pybind-output", {})
                if v["matlab"] != base["matlab"]:
                    add("renaming-changes-matlab-output", {})
        else:
            # every instantiation of the variant exists in the original with the identical result
            for k in v["order"]:
                kb = k.split("#")[0]
                cands = [x for x in base["order"] if x.split("#")[0] == kb]
                if not any(base["recs"][x] == v["recs"][k] for x in cands):
                    d = proj.diff(base["recs"][cands[0]][0], v["recs"][k][0]) if cands else "no such instantiation in the original"
                    add(kind.rstrip("123") + "-changes-instantiation", {"key": k, "detail": d or "pybind block differs"})
                    break
            if kind == "reversed" and sorted(x.split("#")[0] for x in v["order"]) != sorted(x.split("#")[0] for x in base["order"]):
                add("reversal-changes-set-of-instantiations", {"base": base["order"], "variant_order": v["order"]})
    return res


def classify(clause, wit):
    """deviations that are consequences of C02 known findings: an unsubstituted nested parameter keeps its spelling,
    so renaming the parameter changes the output.  Recognised by the fresh spelling (an identifier beginning with
    'Zq') in the variant where the original has a declared parameter."""
    import re
    d = str(wit.get("detail", ""))
    m = re.search(r": '(.*)' != '(.*)'$", d)
    params = set(re.findall(r"(?:template <|,) (\w+)(?= =| ,| >)", wit.get("text", "")))
    if clause.startswith("renaming") and m and "<" in m.group(1) and re.search(r"\bZq\w*", m.group(2)):
        pat = re.sub(r"Zq\w*", "@@", m.group(2))
        pat = re.escape(pat).replace("@@", r"(\w+)")
        mm = re.fullmatch(pat, m.group(1))
        if mm and all(g in params for g in mm.groups()):
            # the only difference is the fresh spelling of a parameter left inside a template argument list
            return "RenamingVisibleThroughUnsubstitutedNestedParam"
    if clause.startswith("renaming") and m and "<" in m.group(2):
        # consequence of C02-qualified-arg-last-component: in the original a first-level template argument `ns::P`
        # (P a parameter's spelling, not the parameter) was rewritten, in the renamed variant it is (correctly) kept
        for p_ in params:
            if re.search(r"::%s\b" % re.escape(p_), m.group(2)):
                pat = re.escape(m.group(2)).replace(re.escape("::" + p_), "::(.+?)")
                if re.fullmatch(pat, m.group(1)):
                    return "RenamingVisibleThroughCapturedQualifiedArg"
    return ""


def main():
    rep = common.Report(PID, "model_checking")
    rng = random.Random(rep.seed)
    thorough = rep.tier == "thorough"
    r0 = tlc.run("InstLaws", "InstLaws.cfg", timeout=600)
    rep.count("states", r0.distinct)
    rep.count("transitions", r0.generated)
    cs, r = cases.simulate(n=2500 if thorough else 250, seed=rep.seed, target=8)
    ex, r2 = cases.exhaustive("inst", target=40, maxitems=2)
    ty, r3 = cases.exhaustive("types", typedepth=1, target=2, members=1, rich=True)
    ty = rng.sample(ty, 6000 if thorough else 500)
    if not thorough:
        ex = rng.sample(ex, 300)
    allc = cs + ex + ty
    for x in (r, r2, r3):
        rep.count("states", max(x.distinct, x.generated))
        rep.count("transitions", x.generated)
    for i, c in enumerate(allc):
        c["id"] = "c%d" % i
    # variants by TLC
    variants = {}
    chunks = [allc[k:k + 800] for k in range(0, len(allc), 800)]

    def run_chunk(ch):
        fd, path = tempfile.mkstemp(prefix="variants_", suffix=".json")
        try:
            with os.fdopen(fd, "w") as f:
                json.dump([{"id": c["id"], "cst": c["cst"], "caps": instcheck.idents_of(c["tree"])} for c in ch], f)
            rr = tlc.run("VariantTrace", "VariantTrace.cfg", env={"TRACE_FILE": path}, timeout=1800)
        finally:
            os.unlink(path)
        return rr
    import concurrent.futures
    with concurrent.futures.ThreadPoolExecutor(max_workers=6) as exr:
        for rr in exr.map(run_chunk, chunks):
            rep.count("states", rr.distinct)
            rep.count("transitions", rr.generated)
            for t in rr.by_tag("VARIANTS"):
                variants[t[1]] = json.loads(t[2])
    if len(variants) != len(allc):
        raise RuntimeError("VariantTrace: %d results for %d cases" % (len(variants), len(allc)))
    items = []
    for c in allc:
        v = variants[c["id"]]
        v["orig"] = c["toks"]
        if any(v[k] != c["toks"] for k in ("renamed", "renamed2", "reversed", "single1", "single2", "single3")):
            items.append((c["id"], c["origin"], v))
    res = common.pmap(job, items, chunksize=4)
    nvar = 0
    for o in res:
        nvar += o["n"]
        for clause, cls, wit in o["bad"]:
            wit["origin"] = o["origin"]
            rep.violation(clause, cls or classify(clause, wit), wit)
    rep.count("traces_validated_against_impl", nvar)
    rep.count("evaluations", nvar)
    rep.cov["distinct_nontrivial"] = nvar
    rep.cov["modules_with_templates"] = len(items)
    rep.cov["rule"] = "one evaluation = one (module, variant) pair whose tokens differ from the original"
    if items:
        rep.sample({"orig": " ".join(items[0][2]["orig"])[:300], "renamed": " ".join(items[0][2]["renamed"])[:300]})
    return rep.finish()


if __name__ == "__main__":
    try:
        sys.exit(main())
    except (tlc.TLCError, proj.ProjectionError, RuntimeError) as e:
        print("MACHINERY FAILURE: %s" % e, file=sys.stderr)
        sys.exit(2)
