"""C16 - multiple interface files and the command-line scripts compose consistently.
spec/Compose.tla: Splits (distribution of a module's top-level declarations over 2..4 files), the module-level
expectations of the main / additional units, and the option correspondence script <-> API; TLC (SplitTrace) emits them
for every derived module and checks LawSplit.  Replay into the implementation:
  Python  wrap(sources, out): declared = invoked = stems, in order; registrations of the main unit = those of its
          text alone; wrap_submodule(src): defines `void stem(py::module_ &m_)` and registers what its text alone gives
  MATLAB  wrap([f1..fk]) == wrap([f1 + newline + ... + fk]) for every ending of the files (no newline, trailing comment)
  scripts both scripts as subprocesses == library API with the corresponding options (byte-identical outputs)"""
import json
import os
import random
import shutil
import subprocess
import sys
import tempfile

sys.path.insert(0, os.path.dirname(os.path.dirname(os.path.abspath(__file__))))
import cases  # noqa: E402
import common  # noqa: E402
import gen  # noqa: E402
import layout  # noqa: E402
import proj  # noqa: E402
import proj_py  # noqa: E402
import pycheck  # noqa: E402
import tlc  # noqa: E402

PID = "C16"
ENDINGS = ["\n", "", " // trailing comment", " /* c */", "\n\n", "\n// last line is a comment"]


def scan_events(text):
    sc = proj_py.scan(text)
    sc["events"] = pycheck.normalise_events(sc["events"])
    return sc


# stems of the additional files: they end in characters of ".i" / contain the suffix inside (a stem is what is left
# when the SUFFIX is removed, not when its characters are stripped)
STEMS = ["multi", "basic-types", "imu_pi"]      # (a stem need not be an identifier: both sides must use the SAME name)


def split_job(item):
    cid, origin, info, seed = item
    rng = random.Random(seed)
    bad = []
    n = 0
    for sp in info["splits"]:
        parts = sp["parts"]
        texts = [layout.render(p).rstrip("\n") + rng.choice(ENDINGS) for p in parts]
        stems = STEMS[:len(parts) - 1]
        tmp = tempfile.mkdtemp(prefix="c16_")
        try:
            srcs = []
            for i, t in enumerate(texts):
                p = os.path.join(tmp, ("main" if i == 0 else stems[i - 1]) + ".i")
                with open(p, "w") as f:
                    f.write(t)
                srcs.append(p)
            n += 1
            # ---- Python main unit
            out = os.path.join(tmp, "main_out.cpp")
            try:
                w = gen.PybindWrapper(module_name="mod", top_module_namespaces=[""], ignore_classes=[],
                                      module_template=proj_py.MARK_TPL)
                w.wrap(list(srcs), out)
                main_ok = True
            except Exception as e:  # noqa: BLE001
                main_ok = False
                alone = gen.pybind_text(texts[0])
                if alone[0] == "ok":
                    bad.append(("py-main-unit-fails-but-its-text-alone-wraps", "", {"exc": repr(e)[:300], "parts": texts}))
            if main_ok:
                with open(out) as f:
                    sc = scan_events(f.read())
                k = len(stems)
                if sc["submods"] != info["decls"][:k]:
                    bad.append(("py-declared-initialisers-differ", "", {"observed": sc["submods"], "expected": info["decls"][:k], "parts": texts}))
                if sc["init"] != info["inits"][:k]:
                    bad.append(("py-invoked-initialisers-differ", "", {"observed": sc["init"], "expected": info["inits"][:k], "parts": texts}))
                if sc["module_def"] != info["maindef"]:
                    bad.append(("py-main-module-definition-differs", "", {"observed": sc["module_def"], "parts": texts}))
                w2 = gen.PybindWrapper(module_name="mod", top_module_namespaces=[""], ignore_classes=[],
                                       module_template=proj_py.MARK_TPL)
                alone = scan_events(w2.wrap_file(texts[0], module_name="mod"))
                if alone["events"] != sc["events"] or alone["includes"] != sc["includes"]:
                    bad.append(("py-main-unit-registrations-differ-from-text-alone", "", {"parts": texts}))
            # ---- Python additional units
            for i, stem in enumerate(stems):
                cwd = os.path.join(tmp, "cwd%d" % i)
                os.mkdir(cwd)
                old = os.getcwd()
                try:
                    os.chdir(cwd)
                    w = gen.PybindWrapper(module_name="mod", top_module_namespaces=[""], ignore_classes=[],
                                          module_template=proj_py.MARK_TPL)
                    try:
                        w.wrap_submodule(srcs[i + 1])
                        sub_ok = True
                    except Exception as e:  # noqa: BLE001
                        sub_ok = False
                        if gen.pybind_text(texts[i + 1])[0] == "ok":
                            bad.append(("py-additional-unit-fails-but-its-text-alone-wraps", "", {"exc": repr(e)[:300], "parts": texts}))
                finally:
                    os.chdir(old)
                if not sub_ok:
                    continue
                produced = sorted(os.listdir(cwd))
                if produced != [stem + ".cpp"]:
                    bad.append(("py-additional-unit-writes-unexpected-files", "", {"files": produced, "stem": stem}))
                    continue
                with open(os.path.join(cwd, stem + ".cpp")) as f:
                    sc = scan_events(f.read())
                if sc["module_def"] != info["subdefs"][i]:
                    bad.append(("py-additional-unit-defines-wrong-initialiser", "", {"observed": sc["module_def"], "expected": info["subdefs"][i]}))
                if sc["submods"] or sc["init"]:
                    bad.append(("py-additional-unit-declares-initialisers", "", {"observed": sc["submods"] + sc["init"]}))
                w2 = gen.PybindWrapper(module_name="mod", top_module_namespaces=[""], ignore_classes=[],
                                       module_template=proj_py.MARK_TPL)
                alone = scan_events(w2.wrap_file(texts[i + 1], module_name="x"))
                if alone["events"] != sc["events"] or alone["includes"] != sc["includes"]:
                    bad.append(("py-additional-unit-registrations-differ-from-text-alone", "", {"part": texts[i + 1]}))
            # ---- MATLAB: list of files == one file holding them in sequence
            ma = gen.matlab_files(texts)
            mb = gen.matlab_files(["\n".join(texts) + "\n"])
            if ma[:2] != mb[:2] if ma[0] != "ok" or mb[0] != "ok" else ma[1] != mb[1]:
                bad.append(("matlab-file-list-differs-from-single-file", "",
                            {"parts": texts, "a": str(ma[:3])[:300] if ma[0] != "ok" else sorted(ma[1]),
                             "b": str(mb[:3])[:300] if mb[0] != "ok" else sorted(mb[1])}))
        finally:
            shutil.rmtree(tmp, ignore_errors=True)
    for b in bad:
        b[2]["origin"] = origin
    return {"bad": bad, "n": n}


def script_job(item):
    """one option combination: script as subprocess vs API"""
    origin, text, apitop, topoption, ignore_mode, ignore, ser, which, submodule = item
    tmp = tempfile.mkdtemp(prefix="c16s_")
    bad = []
    try:
        src = os.path.join(tmp, "mymod.i")
        with open(src, "w") as f:
            f.write(text)
        env = dict(os.environ, PYTHONPATH=common.REPO, PYTHONHASHSEED="0")
        tpl = os.path.join(common.REPO, "templates", "pybind_wrapper.tpl.example")
        if which == "pybind":
            outdir = os.path.join(tmp, "o1")
            os.mkdir(outdir)
            cmd = ["/venv/bin/python", os.path.join(common.REPO, "scripts", "pybind_wrap.py"), "--src", src,
                   "--module_name", "mymod", "--out", os.path.join(outdir, "mymod.cpp"), "--template", tpl]
            if topoption:
                cmd += ["--top_module_namespaces", topoption]
            if ignore_mode != "absent":
                cmd += ["--ignore"] + list(ignore)
            if ser:
                cmd.append("--use-boost-serialization")
            if submodule:
                cmd.append("--is_submodule")
            p = subprocess.run(cmd, cwd=outdir, env=env, stdout=subprocess.PIPE, stderr=subprocess.PIPE, timeout=300)
            got = gen.read_tree(outdir) if p.returncode == 0 else None
            # API
            apidir = os.path.join(tmp, "o2")
            os.mkdir(apidir)
            old = os.getcwd()
            try:
                os.chdir(apidir)
                w = gen.PybindWrapper(module_name="mymod", top_module_namespaces=list(apitop),
                                      use_boost_serialization=ser, ignore_classes=list(ignore),
                                      module_template=gen.PYBIND_TPL)
                try:
                    if submodule:
                        w.wrap_submodule(src)
                    else:
                        w.wrap([src], os.path.join(apidir, "mymod.cpp"))
                    exp = gen.read_tree(apidir)
                except Exception:  # noqa: BLE001
                    exp = None
            finally:
                os.chdir(old)
        else:
            outdir = os.path.join(tmp, "o1")
            os.mkdir(outdir)
            cmd = ["/venv/bin/python", os.path.join(common.REPO, "scripts", "matlab_wrap.py"), "--src", src,
                   "--module_name", "mymod", "--out", outdir]
            if topoption:
                cmd += ["--top_module_namespaces", topoption]
            if ignore_mode != "absent":
                cmd += ["--ignore"] + list(ignore)
            if ser:
                cmd.append("--use-boost-serialization")
            p = subprocess.run(cmd, cwd=tmp, env=env, stdout=subprocess.PIPE, stderr=subprocess.PIPE, timeout=300)
            got = gen.read_tree(outdir) if p.returncode == 0 else None
            r = gen.matlab_files([text], module_name="mymod", top=apitop, ignore=ignore, ser=ser)
            exp = r[1] if r[0] == "ok" else None
        if got != exp:
            bad.append(("script-differs-from-api", "",
                        {"origin": origin, "text": text, "cmd": cmd[1:], "rc": p.returncode,
                         "stderr": p.stderr.decode("utf-8", "replace")[-400:],
                         "script": "failed" if got is None else sorted(got), "api": "failed" if exp is None else sorted(exp)}))
    finally:
        shutil.rmtree(tmp, ignore_errors=True)
    return bad


def main():
    rep = common.Report(PID, "model_checking")
    rng = random.Random(rep.seed)
    thorough = rep.tier == "thorough"
    cs, r = cases.simulate(n=1200 if thorough else 120, seed=rep.seed, target=8)
    ex, r2 = cases.exhaustive("ns", target=4 if thorough else 3, members=1)
    ex = rng.sample(ex, min(len(ex), 1500 if thorough else 120))
    allc = [c for c in cs + ex if len(c["cst"]) >= 2]
    for x in (r, r2):
        rep.count("states", max(x.distinct, x.generated))
        rep.count("transitions", x.generated)
    for i, c in enumerate(allc):
        c["id"] = "c%d" % i

    def ns_paths(cst, path=()):
        out = []
        for d in cst:
            if d["k"] == "namespace":
                out.append(list(path + (d["name"],)))
                out += ns_paths(d["items"], path + (d["name"],))
        return out
    tops = {}
    for c in allc:
        ps = ns_paths(c["cst"])
        def populated(cst, path):      # the namespace at `path` declares something itself
            for d in cst:
                if d["k"] == "namespace" and d["name"] == path[0]:
                    if len(path) == 1:
                        if any(x["k"] != "namespace" for x in d["items"]):
                            return True
                    elif populated(d["items"], path[1:]):
                        return True
            return False
        deep = [p_ for p_ in ps if len(p_) >= 2 and populated(c["cst"], p_)]
        # (half of the modules that have a namespace nested two levels get a top namespace of that depth: a::b on the CLI)
        tops[c["id"]] = rng.choice(deep) if deep and rng.random() < 0.5 else \
            (rng.choice([[]] + ps + [["zz"]]) if ps else rng.choice([[], ["zz"]]))
    info = {}
    chunks = [allc[k:k + 300] for k in range(0, len(allc), 300)]

    def run_chunk(ch):
        fd, path = tempfile.mkstemp(prefix="splits_", suffix=".json")
        try:
            with os.fdopen(fd, "w") as f:
                json.dump([{"id": c["id"], "cst": c["cst"], "stems": STEMS, "name": "mod",
                            "top": tops[c["id"]]} for c in ch], f)
            return tlc.run("SplitTrace", "SplitTrace.cfg", env={"TRACE_FILE": path}, timeout=1800)
        finally:
            os.unlink(path)
    import concurrent.futures
    with concurrent.futures.ThreadPoolExecutor(max_workers=6) as exr:
        for rr in exr.map(run_chunk, chunks):
            rep.count("states", rr.distinct)
            rep.count("transitions", rr.generated)
            for t in rr.by_tag("SPLITS"):
                info[t[1]] = json.loads(t[2])
    if len(info) != len(allc):
        raise RuntimeError("SplitTrace: %d results for %d cases" % (len(info), len(allc)))
    items = []
    for i, c in enumerate(allc):
        inf = info[c["id"]]
        if not thorough and len(inf["splits"]) > 3:
            inf = dict(inf)
            inf["splits"] = rng.sample(inf["splits"], 3)
        items.append((c["id"], c["origin"], inf, rep.seed * 31 + i))
    res = common.pmap(split_job, items, chunksize=2)
    nsplit = 0
    for o in res:
        nsplit += o["n"]
        for clause, cls, wit in o["bad"]:
            rep.violation(clause, cls, wit)
    # scripts
    sjobs = []
    def nclasses(c):
        return sum(1 for t in c["toks"] if t == "class") - sum(1 for a, b in zip(c["toks"], c["toks"][1:]) if a == "enum" and b == "class")
    rich = [c for c in allc if nclasses(c) >= 2]
    deeptop = [c for c in allc if len(tops[c["id"]]) >= 2]      # --top_module_namespaces a::b
    pool = rng.sample(rich, min(len(rich), 40 if thorough else 5)) + rng.sample(allc, min(len(allc), 20 if thorough else 3)) \
        + rng.sample(deeptop, min(len(deeptop), 20 if thorough else 3))
    for c in pool:
        text = layout.render(c["toks"])
        inf = info[c["id"]]
        first = pycheck.observe(text)
        cpps = []
        if "inst" in first:
            def walk(items, path=()):
                for d in items:
                    if d.get("k") == "class":
                        cpps.append((d["cpp"], "::".join(list(path) + [d["name"]])))
                    elif d.get("k") == "namespace":
                        walk(d["items"], path + (d["name"],))
            walk(first["inst"])
        for which in ("pybind", "matlab"):
            for ignore_mode in ("absent", "empty", "one", "many"):
                if ignore_mode == "one" and not cpps:
                    continue
                if ignore_mode == "many" and len(cpps) < 2:
                    continue
                col = 0 if which == "pybind" else 1
                if ignore_mode == "one":
                    ig = [rng.choice(cpps)[col]]
                elif ignore_mode == "many":
                    ig = [x[col] for x in rng.sample(cpps, min(len(cpps), 3))]
                    rng.shuffle(ig)
                else:
                    ig = []
                sjobs.append((c["origin"], text, inf["apitop"], inf["topoption"], ignore_mode, ig, rng.random() < 0.5,
                              which, which == "pybind" and rng.random() < 0.3))
    sres = common.pmap(script_job, sjobs, chunksize=1)
    for lst in sres:
        for clause, cls, wit in lst:
            rep.violation(clause, cls, wit)
    rep.count("traces_validated_against_impl", nsplit + len(sjobs))
    rep.count("evaluations", nsplit + len(sjobs))
    rep.cov["distinct_nontrivial"] = nsplit + len(sjobs)
    rep.cov["splits_replayed"] = nsplit
    rep.cov["script_runs"] = len(sjobs)
    rep.cov["rule"] = "one evaluation = one split of a module replayed through both generators, or one script-vs-API option combination"
    rep.sample({"module": " ".join(allc[0]["toks"])[:300], "endings": ENDINGS})
    # executed: split modules generated the way the build does it, compiled, LINKED into one extension module, imported and
    # driven through the plan PyCall computes for the whole module
    import pysplitcheck
    pysplitcheck.run(rep, thorough)
    rep.assumptions += ["executed half: 'call' profile modules cut at 1-3 top-level declaration boundaries into a main and one additional "
                        "file; cuts that put a derived class after its base's file are not judged (additional files are initialised first)"]
    return rep.finish()


if __name__ == "__main__":
    try:
        sys.exit(main())
    except (tlc.TLCError, proj.ProjectionError, RuntimeError, proj_py.ScanError) as e:
        print("MACHINERY FAILURE: %s" % e, file=sys.stderr)
        sys.exit(2)
