"""C19 - parsing cost stays polynomial in nesting depth and file size.
spec/ParseCost.tla models the parser as a step-counting machine (one step = one evaluation of a rule at a position in
a mode) with and without the packrat memo table and fixes the envelopes; spec/Families.tla renders the scaled input
families.  The harness counts the evaluations of the real parser (calls of pyparsing's ParserElement._parseNoCache, a
deterministic, machine-independent measure) on each family and TLC (ParseCostTrace) judges the measured series.
CPU time is recorded in the evidence but never decides."""
import json
import os
import sys
import tempfile
import time

sys.path.insert(0, os.path.dirname(os.path.dirname(os.path.abspath(__file__))))
import common  # noqa: E402
import layout  # noqa: E402
import proj  # noqa: E402
import tlc  # noqa: E402

PID = "C19"
BUDGET = 3000000      # evaluations per input; the largest family member needs < 10^5 on the pinned tree


def measure(text):
    import pyparsing
    from proj import parser
    counts = {}
    total = [0]
    orig = pyparsing.ParserElement._parseNoCache

    class Budget(BaseException):
        pass

    def counting(self, instring, loc, doActions=True, callPreParse=True):
        k = (id(self), loc, bool(doActions))
        counts[k] = counts.get(k, 0) + 1
        total[0] += 1
        if total[0] > BUDGET:
            raise Budget()          # far beyond any polynomial envelope: stop counting, the verdict is clear
        return orig(self, instring, loc, doActions, callPreParse)
    pyparsing.ParserElement._parseNoCache = counting
    # without a memo table pyparsing binds _parse directly to the uncached function
    orig_parse = pyparsing.ParserElement._parse
    direct = orig_parse is orig
    if direct:
        pyparsing.ParserElement._parse = counting
    # a clean memo table for every measurement
    pyparsing.ParserElement.resetCache() if hasattr(pyparsing.ParserElement, "resetCache") else None
    t0 = time.process_time()
    try:
        try:
            parser.Module.parseString(text)
            ok = True
        except Budget:
            ok = None
        except Exception:  # noqa: BLE001
            ok = False
    finally:
        pyparsing.ParserElement._parseNoCache = orig
        if direct:
            pyparsing.ParserElement._parse = orig_parse
    return {"ok": ok, "work": sum(counts.values()), "maxreeval": max(counts.values()) if counts else 0,
            "cpu": time.process_time() - t0}


def job(item):
    name, d, toks, corrupt = item
    if corrupt:
        toks = toks[:-1]            # truncated member of the family: must be rejected, and quickly
    return name, d, corrupt, measure(layout.render(toks))


def main():
    rep = common.Report(PID, "other")
    thorough = rep.tier == "thorough"
    maxd = 16 if thorough else 10
    r0 = tlc.run("ParseCostTrace", cfg_text="SPECIFICATION Spec\nCONSTANTS\n  MaxD = 12\n  Alts = 3\nCHECK_DEADLOCK FALSE\n",
                 env={"TRACE_FILE": _empty()}, timeout=300)     # evaluates the ASSUME of ParseCost (the cost model)
    req = [{"name": n, "d": d} for n in ("namespace-depth", "template-depth", "both", "file-size", "namespace-populated") for d in range(1, maxd + 1)]
    fd, path = tempfile.mkstemp(prefix="fam_", suffix=".json")
    try:
        with os.fdopen(fd, "w") as f:
            json.dump(req, f)
        rf = tlc.run("Families", "Families.cfg", env={"TRACE_FILE": path}, timeout=600)
    finally:
        os.unlink(path)
    fams = [(t[1], t[2], json.loads(t[3])) for t in rf.by_tag("FAMILY")]
    if len(fams) != len(req):
        raise RuntimeError("Families: %d of %d" % (len(fams), len(req)))
    items = [(n, d, toks, c) for (n, d, toks) in fams for c in (False, True)]
    res = common.pmap(job, items, chunksize=1)
    series = {}
    for name, d, corrupt, m in res:
        series.setdefault((name, corrupt), {})[d] = m
        if m["ok"] is None:
            rep.violation("evaluation-budget-exceeded", "", {"family": name, "d": d, "truncated": corrupt, "budget": BUDGET})
            continue
        if not corrupt and not m["ok"]:
            raise RuntimeError("family member %s d=%d does not parse" % (name, d))
        if corrupt and m["ok"]:
            rep.violation("truncated-family-member-accepted", "", {"family": name, "d": d})
    batch = []
    for (name, corrupt), ms in sorted(series.items()):
        ds = sorted(ms)
        batch.append({"id": "%s%s" % (name, "/truncated" if corrupt else ""), "work": [ms[d]["work"] for d in ds],
                      "maxreeval": [ms[d]["maxreeval"] for d in ds], "reevalA": 8, "reevalB": 4})
    fd, path = tempfile.mkstemp(prefix="cost_", suffix=".json")
    try:
        with os.fdopen(fd, "w") as f:
            json.dump(batch, f)
        rt = tlc.run("ParseCostTrace", "ParseCostTrace.cfg", env={"TRACE_FILE": path}, timeout=300)
    finally:
        os.unlink(path)
    verdicts = {t[1]: t[2] for t in rt.by_tag("VERDICT")}
    if len(verdicts) != len(batch):
        raise RuntimeError("ParseCostTrace: %d verdicts for %d series" % (len(verdicts), len(batch)))
    for b in batch:
        if verdicts[b["id"]]:
            rep.violation(verdicts[b["id"]], "", {"family": b["id"], "work": b["work"], "maxreeval": b["maxreeval"]})
    rep.count("evaluations", len(items))
    rep.cov["distinct_nontrivial"] = len(items)
    rep.cov["rule"] = "one evaluation = one member (family, depth or size, intact or truncated) parsed with evaluation counting"
    rep.cov["explanation"] = ("step counts (ParserElement._parseNoCache calls) of the real parser on four scaled families up to "
                              "d=%d, judged by TLC against the envelopes of the ParseCost model: W(2d) <= 8 W(d), not doubling "
                              "per level, per-(rule,position,mode) re-evaluations <= 8 + 4d" % maxd)
    rep.cov["series"] = {b["id"]: {"work": b["work"], "maxreeval": b["maxreeval"]} for b in batch}
    rep.cov["cpu_seconds_max"] = max(m["cpu"] for ms in series.values() for m in ms.values())
    rep.sample({"family": fams[2][0], "d": fams[2][1], "text": " ".join(fams[2][2])[:200]})
    rep.assumptions += ["a slowdown that does not change the number of rule evaluations is not detected",
                        "time is never an oracle"]
    return rep.finish()


def _empty():
    fd, path = tempfile.mkstemp(prefix="empty_", suffix=".json")
    with os.fdopen(fd, "w") as f:
        f.write("[]")
    return path


if __name__ == "__main__":
    try:
        sys.exit(main())
    except (tlc.TLCError, proj.ProjectionError, RuntimeError) as e:
        print("MACHINERY FAILURE: %s" % e, file=sys.stderr)
        sys.exit(2)
