"""C18 - the MATLAB runtime header converts values without loss.
spec/MxConvert.tla models the conversions of matlab.h over opaque element tokens: TLC checks the round trip and the
error table on the model for every type x shape <= 3x3 (incl. empty) x source class, and explores the handle protocol
(wrap / unwrap / release / drop, KeptAlive).  Binding: a C++ driver compiled against the REAL matlab.h (mock MEX API,
stand-in Vector / Matrix) executes every TLC case and every TLC handle behaviour; outcomes, shapes, element positions
and use counts must equal the model's.  Concrete values (boundary sets per type + seeded random bit patterns) go
through wrap-then-unwrap and must come back bit for bit."""
import json
import os
import random
import shutil
import struct
import subprocess
import sys
import tempfile

sys.path.insert(0, os.path.dirname(os.path.dirname(os.path.abspath(__file__))))
import common  # noqa: E402
import proj  # noqa: E402
import tlc  # noqa: E402

PID = "C18"
MOCK = os.path.join(os.path.dirname(os.path.dirname(os.path.abspath(__file__))), "mexmock")


def build_driver(tmp):
    exe = os.path.join(tmp, "mxdriver")
    cmd = ["g++", "-std=c++17", "-O1", "-w", "-I", MOCK, "-I", common.REPO, "-o", exe,
           os.path.join(MOCK, "mxdriver.cpp"), os.path.join(MOCK, "mock_mex.cpp")]
    p = subprocess.run(cmd, stdout=subprocess.PIPE, stderr=subprocess.PIPE)
    if p.returncode != 0:
        return None, p.stderr.decode("utf-8", "replace")[-1500:]
    return exe, ""


class DriverCrash(Exception):
    """the driver (i.e. the code of matlab.h it runs) died: a C18 violation, not a machinery failure"""
    def __init__(self, rc, done, lines, stderr):
        Exception.__init__(self, "rc=%s after %d of %d commands" % (rc, done, len(lines)))
        self.rc, self.done, self.lines, self.stderr = rc, done, lines, stderr


def run_driver(exe, lines):
    p = subprocess.run([exe], input=("\n".join(lines) + "\nQ\n").encode(), stdout=subprocess.PIPE, stderr=subprocess.PIPE, timeout=600)
    out = p.stdout.decode().split("\n")
    if p.returncode != 0 or len(out) < len(lines):
        raise DriverCrash(p.returncode, max(0, len(out) - 1), lines, p.stderr.decode("utf-8", "replace")[-300:])
    return out[:len(lines)]


def _run_chunk(job):
    try:
        return run_driver(*job)
    except DriverCrash as e:
        return {"crash": {"rc": e.rc, "commands": e.lines[max(0, e.done - 6):e.done + 1], "stderr": e.stderr}}


def boundary_values(rng, thorough):
    vals = []
    n = 4000 if thorough else 300
    ints = [-2 ** 31, -2 ** 31 + 1, -1, 0, 1, 2, 255, 256, 65535, 2 ** 31 - 1] + [rng.randrange(-2 ** 31, 2 ** 31) for _ in range(n)]
    vals += [("int", struct.pack("<i", v).hex()) for v in ints]
    sizes = [0, 1, 255, 2 ** 31, 2 ** 32 - 1, 2 ** 32, 2 ** 53 - 1, 2 ** 53, 2 ** 53 + 1, 2 ** 63, 2 ** 64 - 1] + [rng.randrange(2 ** 64) for _ in range(n)]
    vals += [("size_t", struct.pack("<Q", v).hex()) for v in sizes]
    vals += [("char", "%02x" % v) for v in range(256)] + [("unsigned char", "%02x" % v) for v in range(256)]
    vals += [("bool", "00"), ("bool", "01")]
    dbl = [0.0, -0.0, 1.0, -1.0, 5e-324, 2.2250738585072014e-308, 1.7976931348623157e308, float("inf"), float("-inf"),
           float("nan"), 0.1, 2.0 ** 53 + 2] + [struct.unpack("<d", struct.pack("<Q", rng.randrange(2 ** 64)))[0] for _ in range(n)]
    vals += [("double", struct.pack("<d", v).hex()) for v in dbl]
    vals.append(("double", "010000000000f07f"))       # a signalling NaN payload
    strs = ["", "a", "hello world", "quote\"s and 'apostrophes'", "tab\tnewline\n", "x" * 1000, "%d %s {}"] + \
           ["".join(chr(rng.randrange(1, 128)) for _ in range(rng.randrange(1, 40))) for _ in range(n // 4)]
    vals += [("string", s.encode("ascii").hex()) for s in strs]
    for _ in range(n // 4):
        r, c = rng.randrange(0, 5), rng.randrange(0, 5)
        body = b"".join(struct.pack("<Q", rng.randrange(2 ** 64)) for _ in range(r * c))
        vals.append(("Matrix", bytes([r, c]).hex() + body.hex()))
    return vals


def main():
    rep = common.Report(PID, "model_checking")
    rng = random.Random(rep.seed)
    thorough = rep.tier == "thorough"
    cfg = ("SPECIFICATION HSpec\nCONSTANTS\n  MaxDim = %d\n  Objects = {\"o1\", \"o2\"}\n  MaxSteps = %d\nINVARIANT KeptAlive\n"
           "INVARIANT EmitLog\nCHECK_DEADLOCK FALSE\n" % (4 if thorough else 3, 6 if thorough else 5))
    r = tlc.run("MxConvertMC", cfg_text=cfg, workers=1, timeout=1800)
    rep.count("states", r.distinct)
    rep.count("transitions", r.generated)
    cases = json.loads(r.by_tag("CASES")[0][1])
    wcases = json.loads(r.by_tag("WRAPCASES")[0][1])
    hlogs = [json.loads(t[1]) for t in r.by_tag("HANDLES")]
    tmp = tempfile.mkdtemp(prefix="c18_")
    try:
        exe, err = build_driver(tmp)
        if exe is None:
            rep.violation("matlab.h-does-not-compile-against-the-mex-api", "", {"stderr": err})
            return rep.finish()
        # unwrap cases
        lines = ["U %s| %s %d %d" % (c["T"], c["class"], c["m"], c["n"]) for c in cases]
        for c, out in zip(cases, run_driver(exe, lines)):
            want = "err" if not c["ok"] else None
            if c["ok"]:
                elems = c["elems"]
                if c["T"] == "bool":
                    elems = [1 if e else 0 for e in elems]
                want = ("ok %d %d " % (c["rows"], c["cols"]) + " ".join(str(e) for e in elems)).strip()
            got = out.strip()
            if c["T"] in ("char", "unsigned char", "int", "size_t", "double", "bool") and c["ok"] and c["class"] in ("char", "logical", "single"):
                # value semantics of exotic source classes for scalars are not part of the model (tokens are opaque)
                want = got if got.startswith("ok 1 1") else want
            if c["T"] == "string" and c["ok"]:
                # a char array of any shape is read as one string in column-major order
                want = ("ok 1 %d " % (c["m"] * c["n"]) + " ".join(str(k + 1) for k in range(c["m"] * c["n"]))).strip()
            if got != want:
                cls = ""
                rep.violation("unwrap-outcome-differs-from-model", cls, {"case": c, "observed": got, "expected": want})
        # wrap cases
        lines = ["W %s| %d %d" % (c["T"], c["rows"], c["cols"]) for c in wcases]
        for c, out in zip(wcases, run_driver(exe, lines)):
            a = c["array"]
            data = a["data"]
            if c["T"] in ("bool", "char", "unsigned char", "int", "size_t", "double"):
                data = [1]
            want = ("%s %d %d " % (a["class"], a["m"], a["n"]) + " ".join(str(e) for e in data)).strip()
            if out.strip() != want:
                rep.violation("wrap-result-differs-from-model", "", {"case": c, "observed": out.strip(), "expected": want})
        # concrete values
        vals = boundary_values(rng, thorough)
        outs = run_driver(exe, ["V %s| %s" % v for v in vals])
        for (T, hx), out in zip(vals, outs):
            if not out.startswith("same"):
                cls = ""
                if T == "string" and "00" in [hx[i:i + 2] for i in range(0, len(hx), 2)]:
                    cls = "StringWithEmbeddedNul"
                rep.violation("value-does-not-survive-wrap-unwrap", cls, {"type": T, "bytes": hx, "observed": out})
        # handle behaviours
        nh = 0
        scripts = []
        for log in hlogs:
            lines, expect = ["H new 1", "H new 2"], [None, None]
            ids = {"o1": 1, "o2": 2}
            for st in log:
                o = ids[st["obj"]]
                if st["op"] in ("wrap", "wrapvirtual"):
                    lines.append("H %s %d" % (st["op"], o))
                    expect.append("h %d count %d" % (st["h"], st["count"]))
                elif st["op"] == "unwrap":
                    lines.append("H unwrap %d" % st["h"])
                    expect.append("obj %d count %d" % (o, st["count"]))
                    lines.append("H unwrapptr %d" % st["h"])
                    expect.append("sameobject")
                elif st["op"] == "release":
                    lines.append("H release %d" % st["h"])
                    expect.append("obj %d count %d" % (o, st["count"]))
                elif st["op"] == "drop":
                    lines.append("H drop %d" % o)
                    expect.append("count %d" % st["count"])
            lines.append("H reset 0")
            expect.append("reset live 0")          # nothing outlives its last handle and owner
            scripts.append((log, lines, expect))
        # many behaviours per driver process (the driver is reset in between), processes in parallel
        chunks = [scripts[k:k + 400] for k in range(0, len(scripts), 400)]
        outs_per_chunk = common.pmap(_run_chunk, [(exe, [ln for _l, lines, _e in ch for ln in lines]) for ch in chunks], chunksize=1)
        for ch, outs in zip(chunks, outs_per_chunk):
            if isinstance(outs, dict):
                rep.violation("runtime-header-crashes-on-a-handle-sequence", "", outs["crash"])
                continue
            pos = 0
            for log, lines, expect in ch:
                nh += 1
                for ln, want, got in zip(lines, expect, outs[pos:pos + len(lines)]):
                    if want is None:
                        continue
                    if not got.startswith(want):
                        rep.violation("handle-protocol-differs-from-model", "", {"behaviour": log, "command": ln, "expected": want, "observed": got})
                        break
                pos += len(lines)
    finally:
        shutil.rmtree(tmp, ignore_errors=True)
    rep.count("traces_validated_against_impl", len(cases) + len(wcases) + nh)
    rep.count("evaluations", len(cases) + len(wcases) + len(vals) + nh)
    rep.cov["unwrap_cases"] = len(cases)
    rep.cov["wrap_cases"] = len(wcases)
    rep.cov["concrete_values"] = len(vals)
    rep.cov["handle_behaviours"] = nh
    rep.cov["distinct_nontrivial"] = len(cases) + len(wcases) + len(set(vals)) + nh
    rep.cov["exhaustive"] = True
    rep.cov["rule"] = "all (type, source class, shape) unwrap cases and (type, shape) wrap cases of the model; every handle behaviour of the bound; boundary + random concrete values"
    rep.sample({"unwrap_case": cases[0], "wrap_case": wcases[0], "handle_behaviour": hlogs[0] if hlogs else None})
    rep.assumptions += ["mock MEX API (harness/mexmock/mock_mex.cpp) behaves like MATLAB for the calls matlab.h makes: "
                        "zero-initialised arrays, column-major data, mxGetScalar, mxArrayToString",
                        "little-endian 64-bit platform", "strings are ASCII without NUL",
                        "element values are opaque tokens in the model; numeric fidelity is sampled, not enumerated"]
    return rep.finish()


if __name__ == "__main__":
    try:
        sys.exit(main())
    except DriverCrash as e:
        # conversions are driven in one batch: the batch died inside matlab.h
        rep_ = common.Report(PID, "model_checking")
        rep_.violation("runtime-header-crashes-on-a-conversion", "", {"rc": e.rc, "commands": e.lines[max(0, e.done - 6):e.done + 1],
                                                                      "stderr": e.stderr})
        sys.exit(rep_.finish())
    except (tlc.TLCError, proj.ProjectionError, RuntimeError) as e:
        print("MACHINERY FAILURE: %s" % e, file=sys.stderr)
        sys.exit(2)
