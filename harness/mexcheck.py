"""MATLAB generator: observation (MATLAB-oriented instantiated tree + scanned toolbox) and TLC validation (MexTrace)."""
import json
import os
import tempfile

import gen
import proj
import pycheck
import proj_m
import proj_mexcpp
import tlc
from proj import instantiator, parser


def observe(texts, ignore=(), ser=False, module_name="mod"):
    """texts: list of interface texts (MatlabWrapper.wrap concatenates them)"""
    if isinstance(texts, str):
        texts = [texts]
    try:
        m = parser.Module.parseString("\n".join(texts) + "\n")
        if pycheck.typedef_of_non_template(proj.proj_tree(m)):
            return {"outcome": "not-judged:typedef-of-non-template"}
        m = instantiator.instantiate_namespace(m)
        inst = proj.proj_minst(m)
    except proj.ProjectionError:
        # an instantiated tree of impossible shape: C02 reports it, the generator checks do not judge the module
        return {"outcome": "front-exc:impossible-instantiated-tree"}
    except Exception as e:  # noqa: BLE001
        return {"outcome": "front-exc:" + type(e).__name__}
    r = gen.matlab_files(texts, module_name=module_name, ignore=ignore, ser=ser)
    if r[0] != "ok":
        return {"outcome": "gen-exc:" + r[1], "inst": inst, "msg": r[2], "tb": r[3]}
    files = []
    cpps = []
    for path, text in sorted(r[1].items()):
        if path.endswith(".m"):
            try:
                files.append(proj_m.scan_m(path, text))
            except proj_m.ScanError as e:
                return {"outcome": "unscannable", "inst": inst, "detail": "%s: %s" % (path, e), "files": r[1]}
        elif path.endswith(".cpp"):
            cpps.append((path, text))
        else:
            files.append({"kind": "unknown", "path": path})
    cpp = None
    if cpps:
        try:
            cpp = proj_mexcpp.scan_cpp(cpps[0][1])
        except proj_mexcpp.ScanError as e:
            return {"outcome": "unscannable", "inst": inst, "detail": "%s: %s" % (cpps[0][0], e), "files": r[1]}
        for rt in cpp["routines"]:
            rt.pop("body", None)
    return {"outcome": "ok", "inst": inst, "files": files, "cpp": cpp, "ncpp": len(cpps), "raw": r[1]}


EMPTY_CPP = {"includes": [], "typedefs": [], "export_guids": [], "collectors": [], "delete_loops": [], "rtti": [],
             "rtti_module": "", "routines": [], "cases": [], "mex_module": ""}


def validate(batch, timeout=1800):
    obs = [{"id": b["id"], "inst": b["inst"], "opts": b["opts"], "files": b["files"], "cpp": b["cpp"] or EMPTY_CPP,
            "ncpp": b["ncpp"]} for b in batch]
    fd, path = tempfile.mkstemp(prefix="mextrace_", suffix=".json")
    try:
        with os.fdopen(fd, "w") as f:
            json.dump(obs, f)
        r = tlc.run("MexTrace", "MexTrace.cfg", env={"TRACE_FILE": path}, timeout=timeout)
    finally:
        os.unlink(path)
    out = {t[1]: json.loads(t[2]) for t in r.by_tag("VERDICT")}
    if len(out) != len(batch):
        raise RuntimeError("MexTrace: %d verdicts for %d observations" % (len(out), len(batch)))
    return out, r
