"""C06 / C11 executed over GENERATED gateways: modules of the 'call' profile are wrapped by the MATLAB generator, the
real <module>_wrapper.cpp is compiled with the real matlab.h against the MEX mock and the rendered instrumented library
(harness/cpplib.py), and the MATLAB side (emulated from the scanned .m files, harness/mexmock/session_driver.cpp) is
driven through the session plan of spec/PyCall.tla: every constructor / method / static method / function at every
arity n .. n-k, property access, then deletion of every handle.  Per step the library's call log must name the
declared entity with the values in declared order and the declared defaults (C06); no step may crash, and after the
last handle is deleted every collector must be empty (C11)."""
import os
import re
import shutil
import tempfile

import cases
import common
import cpplib
import layout
import mexsession
import pycallcheck
import pycheck

# directed witnesses of the recorded findings (the mexcall profile avoids these constructs so that the rest is executed)
WITNESSES = [("unsigned-char-guard", "void f ( unsigned char a ) ;\n",
              [{"k": "function", "name": "f", "tmpl": [], "ret": {"pair": False, "t1": {"qn": ["void"], "args": [], "const": False, "q": "", "basic": True},
                                                                "t2": {"qn": [], "args": [], "const": False, "q": "", "basic": False}},
                "args": [{"t": {"qn": ["unsigned char"], "args": [], "const": False, "q": "", "basic": True}, "name": "a", "hasdef": False, "def": ""}]}]),
             ("raw-pointer-return", "class A { A ( ) ; } ; A @ f ( ) ;\n",
              [{"k": "class", "name": "A", "tmpl": [], "virtual": False, "hasbase": False, "base": {"qn": [], "args": [], "const": False, "q": "", "basic": False},
                "ctors": [{"k": "ctor", "name": "A", "tmpl": [], "args": []}], "methods": [], "statics": [], "props": [], "ops": [], "dunders": [], "enums": []},
               {"k": "function", "name": "f", "tmpl": [], "ret": {"pair": False, "t1": {"qn": ["A"], "args": [], "const": False, "q": "@", "basic": False},
                                                                "t2": {"qn": [], "args": [], "const": False, "q": "", "basic": False}}, "args": []}])]
WITNESSES.append(("pointer-property-setter", "class A { A ( ) ; } ; class T { T ( ) ; A * sp ; } ;\n",
                  [WITNESSES[1][2][0],
                   {"k": "class", "name": "T", "tmpl": [], "virtual": False, "hasbase": False, "base": {"qn": [], "args": [], "const": False, "q": "", "basic": False},
                    "ctors": [{"k": "ctor", "name": "T", "tmpl": [], "args": []}], "methods": [], "statics": [],
                    "props": [{"k": "prop", "t": {"qn": ["A"], "args": [], "const": False, "q": "*", "basic": False}, "name": "sp", "hasdef": False, "def": ""}],
                    "ops": [], "dunders": [], "enums": []}]))
WITNESSES.append(("string-reference-parameter", "void f ( const string & s ) ;\n",
                  [{"k": "function", "name": "f", "tmpl": [], "ret": WITNESSES[0][2][0]["ret"],
                    "args": [{"t": {"qn": ["string"], "args": [], "const": True, "q": "&", "basic": False}, "name": "s", "hasdef": False, "def": ""}]}]))
FOREIGN = {"float", "Key", "Vector", "Matrix", "lib", "Tools", "POSEs", "Values", "Util", "Pose3", "Point3", "Point2"}
MEX_OPS = {"new", "method", "static", "func", "getprop", "setprop"}


def enc(lit):
    if lit.startswith("$"):
        return "o:" + lit[1:]
    v = eval(lit, {"__builtins__": {}})
    if isinstance(v, bool):
        return "b:%d" % v
    if isinstance(v, int):
        return "i:%d" % v
    if isinstance(v, float):
        return "d:%r" % v
    return "s:" + v


def translate(plan):
    """plan steps -> [(command, step or None)]; MATLAB has no keyword arguments, operators or module attributes"""
    out, live = [], []
    for st in plan:
        if st["op"] not in MEX_OPS or st["exc"] or st["mname"].startswith("__"):
            continue
        # MATLAB has no keyword arguments: the keyword step (all keywords, reversed) is executed positionally
        pos = st["pos"] if not st["kw"] else [k["value"] for k in reversed(st["kw"])]
        args = " ".join(enc(x) for x in pos)
        cls = ".".join(st["path"])
        if st["op"] == "new":
            if st["var"] in live:                     # re-assigning a MATLAB variable destroys the handle it held
                out.append(("del " + st["var"], None))
            else:
                live.append(st["var"])
            out.append((("new %s %s %s" % (st["var"], cls, args)).strip(), st))
        elif st["op"] == "method":
            out.append((("call %s %s %s" % (st["on"], st["mname"], args)).strip(), st))
        elif st["op"] == "static":
            out.append((("static %s %s %s" % (cls, st["mname"], args)).strip(), st))
        elif st["op"] == "func":
            out.append((("func %s %s" % (".".join(st["path"] + [st["mname"]]), args)).strip(), st))
        elif st["op"] == "getprop":
            out.append(("get %s %s" % (st["on"], st["name"]), st))
        elif st["op"] == "setprop":
            out.append(("set %s %s %s" % (st["on"], st["name"], args), st))
    return out, live


def judge(st, o):
    norm = lambda ls: [l.replace(", ", ",") for l in ls]
    if o["status"] != "R":
        return "C06:gateway-call-fails"        # (classified by the caller: kinds of the supplied parameters)
    if norm(o.get("G", [])) != norm(st["log"]):
        return "C06:routine-does-not-call-the-declared-entity-with-the-declared-arguments"
    want = st["ret"]
    res = o["result"].strip()
    if st["op"] in ("new", "setprop"):
        return ""
    if want == "none":
        return "" if res == "" else "C06:void-callable-produces-an-output"
    if want == "any":
        return ""
    if res == "":
        return "C06:result-not-assigned-to-an-output"
    if want.startswith("obj:"):
        parts = res.split(":")
        return "" if parts[0] == "obj" and parts[2] == want[4:] else "C06:result-wrapped-as-another-class"
    if want == "tuple":
        return "" if len(res.split()) == 2 else "C06:pair-result-not-assigned-to-two-outputs"
    return ""


def exec_job(item):
    mid, text, tree, plan = item
    cmds, live = translate(plan)
    if not cmds:
        return mid, "nothing-to-call", None, [], 0
    d = tempfile.mkdtemp(prefix="c06x_")
    try:
        lib = os.path.join(d, "lib.h")
        with open(lib, "w") as f:
            f.write(cpplib.header(tree, mex=True))
        try:
            exe, table, _scans = mexsession.build(d, text, lib, module="mod")
        except RuntimeError as e:
            return mid, "build-fails", str(e)[-1500:], [], 0
        lines = [c for c, _ in cmds]
        out, err, rc = mexsession.run(exe, table, lines + ["probe"])
        # objects that came back as results are MATLAB variables r1, r2, ... of the emulator: delete them too
        rvars = []
        for o in out:
            rvars += re.findall(r"obj:(r\d+):", o.get("result", ""))
        tail = ["del " + v for v in live + rvars]
        out2, err2, rc2 = mexsession.run(exe, table, lines + tail + ["probe", "unload"])
        bad = []
        if rc2 != 0 or len(out2) != len(lines) + len(tail) + 2:
            k = len(out2)
            st = cmds[k][1] if k < len(cmds) and cmds[k][1] is not None else {}
            info = {"status": "X", "result": "gateway process died (rc %s)" % rc2, "stderr": err2[-600:],
                    "commands": (lines + tail)[max(0, k - 3):k + 1]}
            bad.append(("C11:gateway-crashed", k, st, info))
            if st:
                bad.append(("C06:gateway-call-fails", k, st, info))
        for k, ((cmd, st), o) in enumerate(zip(cmds, out2)):
            if st is None:
                continue
            c = judge(st, o)
            if c:
                bad.append((c, k, st, o))
        if len(out2) >= len(lines) + len(tail) + 1:
            after = out2[len(lines) + len(tail)]
            left = {k_: v for k_, v in after.get("C", {}).items() if v != "0"}
            if left:
                bad.append(("C11:collector-entries-left-after-deleting-every-handle", len(lines) + len(tail), {"collectors": left}, after))
        return mid, "ok", None, bad, len([1 for _c, s_ in cmds if s_ is not None])
    finally:
        shutil.rmtree(d, ignore_errors=True)


def usable(toks):
    return not (set(toks) & FOREIGN)


def run(rep, thorough, pid):
    n = 500 if thorough else 60
    cs, r = cases.simulate(n=n, seed=rep.seed + 21, target=12, members=8, profile="mexcall")
    rep.count("states", r.generated)
    rep.count("transitions", r.generated)
    batch, meta, skipped = [], {}, {}
    for k, c in enumerate(cs):
        if not usable(c["toks"]):
            skipped["types-outside-the-MATLAB-runtime"] = skipped.get("types-outside-the-MATLAB-runtime", 0) + 1
            continue
        text = layout.render(c["toks"])
        ob = pycheck.observe(text)
        if ob["outcome"] != "ok":
            skipped[ob["outcome"]] = skipped.get(ob["outcome"], 0) + 1
            continue
        cpps = pycallcheck.class_cpps(ob["inst"])
        if len(cpps) != len(set(cpps)):
            skipped["not-judged:same-type-bound-twice"] = skipped.get("not-judged:same-type-bound-twice", 0) + 1
            continue
        lex = pycheck.lex_facts(ob["inst"])
        lex["st"] = {x["cpp"]: x["st"] for x in ob["spell"]}
        mid = "g%d" % k
        batch.append({"id": mid, "inst": ob["inst"], "lex": lex})
        meta[mid] = (c["origin"], text, c["tree"])
    for name, text, tree in WITNESSES:
        ob = pycheck.observe(text)
        if ob["outcome"] != "ok":
            raise RuntimeError("witness %s: %s" % (name, ob["outcome"]))
        lex = pycheck.lex_facts(ob["inst"])
        lex["st"] = {x["cpp"]: x["st"] for x in ob["spell"]}
        batch.append({"id": "w-" + name, "inst": ob["inst"], "lex": lex})
        meta["w-" + name] = ("finding-witness:" + name, text, tree)
    plans, rt = pycallcheck.plans_for(batch)
    rep.count("states", rt.distinct)
    rep.count("transitions", rt.generated)
    res = common.pmap(exec_job, [(mid, meta[mid][1], meta[mid][2], plans[mid]) for mid in meta], chunksize=1)
    outcomes, nsteps = {}, 0
    for mid, outcome, detail, bad, ns in res:
        outcomes[outcome] = outcomes.get(outcome, 0) + 1
        origin, text, _t = meta[mid]
        nsteps += ns
        facts = pycallcheck.FACTS.get(mid, {})
        if outcome == "build-fails":
            if pid == "C06":
                # spec-side facts of the module decide whether a recorded finding explains the failure
                cls = ""
                if facts.get("rawret") and "wrap_shared_ptr(" in detail and "no matching function" in detail:
                    cls = "RawPointerReturnNotWrapped"
                elif facts.get("tmplfunc") and "was not declared in this scope" in detail:
                    cls = "TemplatedFunctionCalledByInstantiatedName"
                elif facts.get("ptrprop") and re.search(r"obj->(\w+) = \*\1;", detail):
                    cls = "PointerPropertySetterDereferences"
                rep.violation("C06:generated-gateway-does-not-build", cls, {"origin": origin, "text": text, "detail": detail})
            continue
        for clause, k, st, o in bad[:3]:
            if clause.startswith(pid + ":"):
                cls = ""
                kinds = (st.get("kinds") or []) if isinstance(st, dict) else []
                msg = o.get("result", "") if isinstance(o, dict) else ""
                if clause in ("C06:gateway-call-fails", "C11:gateway-crashed") and "gateway process died" in msg \
                        and "string&" in kinds:
                    cls = "StringReferenceUnwrappedAsObject"
                elif clause == "C06:gateway-call-fails" and "unsigned char" in kinds and "do not match any overload" in msg:
                    cls = "UnsignedCharGuardNeverMatches"
                elif clause == "C06:gateway-call-fails" and "do not match any overload" in msg \
                        and any(k_.startswith("class:") and "<" in k_ for k_ in kinds):
                    cls = "ThisOfTemplateSpelledAsCppInMatlab"        # a parameter of the template instantiation's own type
                elif clause in ("C06:gateway-call-fails", "C11:gateway-crashed") \
                        and (re.search(r"Undefined function or class \S*<", msg) or "gateway process died" in msg) \
                        and any("<" in x for x in (st.get("retcpp") or [])):
                    # a result of a template instantiation's own type is handed to MATLAB under its C++ spelling; what the
                    # runtime does with the class-not-found error raised inside create_object is not defined (the mock dies)
                    cls = "ThisOfTemplateSpelledAsCppInMatlab"
                rep.violation(clause, cls, {"origin": origin, "text": text, "step": k, "plan_step": st, "observed": o})
    rep.count("traces_validated_against_impl", len(res))
    rep.count("evaluations", len(res))
    rep.cov["executed_gateways"] = outcomes
    rep.cov["executed_gateway_calls"] = nsteps
    rep.cov["call_profile_modules_not_executed"] = skipped
