// Instrumented library implementing session1.i.  Results echo an argument or a field (no arithmetic), so that the
// session model (spec/MexSession.tla) can state them as strings.  Every entity appends "<entity>(<args>)" to calllog and every class
// counts its live instances, so that the driver can report what really ran and what is alive.
#pragma once
#include <map>
#include <memory>
#include <sstream>
#include <string>
#include <utility>
#include <vector>
static std::vector<std::string> calllog;
static std::map<std::string, int> livecount;
template <typename... A> static void LOG(const char *entity, A... a) {
  std::ostringstream o; o << entity << "("; int n = 0; ((o << (n++ ? "," : "") << a), ...); o << ")"; calllog.push_back(o.str()); }
struct Counted { std::string cls; Counted(const char *c) : cls(c) { ++livecount[cls]; } Counted(const Counted &o) : cls(o.cls) { ++livecount[cls]; } ~Counted() { --livecount[cls]; } };

class Base : public std::enable_shared_from_this<Base> {
 public:
  Counted c_; int id_; int tag;
  Base() : c_("Base"), id_(0), tag(0) { LOG("Base::Base#0"); }
  Base(int id) : c_("Base"), id_(id), tag(0) { LOG("Base::Base#1", id); }
  Base(const char *cls, int id) : c_(cls), id_(id), tag(0) {}
  Base(const Base &o) : c_(o.c_), id_(o.id_), tag(o.tag) {}
  virtual ~Base() {}
  virtual std::shared_ptr<Base> clone() const { return std::make_shared<Base>(*this); }
  int id() const { LOG("Base::id", id_); return id_; }
  int addTo(int x, int y) const { LOG("Base::addTo", id_, x, y); return y; }
  std::shared_ptr<Base> self() const { LOG("Base::self", id_); return std::const_pointer_cast<Base>(shared_from_this()); }
  void absorb(const Base &other) { LOG("Base::absorb", id_, other.id_); }
  double weigh(std::shared_ptr<Base> other, double k) const { LOG("Base::weigh", id_, other->id_, k); return k; }
};
class Mid : public Base {
 public:
  Mid(int id) : Base("Mid", id) { LOG("Mid::Mid#0", id); }
  Mid(const char *cls, int id) : Base(cls, id) {}
  std::shared_ptr<Base> clone() const override { return std::make_shared<Mid>(*this); }
  int twice() const { LOG("Mid::twice", id_); return id_; }
  static std::shared_ptr<Base> Make(int kind, int id);
};
class Leaf : public Mid {
 public:
  double w_;
  Leaf(int id, double w) : Mid("Leaf", id), w_(w) { LOG("Leaf::Leaf#0", id, w); }
  std::shared_ptr<Base> clone() const override { return std::make_shared<Leaf>(*this); }
  double weight() const { LOG("Leaf::weight", id_); return w_; }
  std::pair<int, double> both() const { LOG("Leaf::both", id_); return {id_, w_}; }
};
inline std::shared_ptr<Base> Mid::Make(int kind, int id) {
  LOG("Mid::Make", kind, id);
  std::shared_ptr<Base> p;
  if (kind == 0) p = std::make_shared<Base>("Base", id); else if (kind == 1) p = std::make_shared<Mid>("Mid", id); else p = std::make_shared<Leaf>(id, 0.5);
  return p;
}
class Other {
 public:
  Counted c_; std::string name_; double gain;
  Other() : c_("Other"), name_("other"), gain(1.0) { LOG("Other::Other#0"); }
  Other(const Other &o, std::string name) : c_("Other"), name_(o.name_ + name), gain(o.gain) { LOG("Other::Other#1", o.name_, name); }
  Other(const Other &o) : c_(o.c_), name_(o.name_), gain(o.gain) {}
  std::string name() const { LOG("Other::name", name_); return name_; }
  int probe(Base *raw) const { LOG("Other::probe", raw->id_); return raw->id_; }
  Other twin() const { LOG("Other::twin", name_); return Other(*this); }
  Other &me() { LOG("Other::me", name_); return *this; }
  static int Count() { LOG("Other::Count"); return 42; }
};
namespace ns {
class Inner {
 public:
  Counted c_; size_t n_;
  Inner(size_t n) : c_("Inner"), n_(n) { LOG("ns::Inner::Inner#0", n); }
  Inner(const Inner &o) : c_(o.c_), n_(o.n_) {}
  size_t n() const { LOG("ns::Inner::n", n_); return n_; }
  bool same(const Inner &o) const { LOG("ns::Inner::same", n_, o.n_); return n_ == o.n_; }
};
inline std::shared_ptr<Inner> makeInner(size_t n) { LOG("ns::makeInner", n); return std::make_shared<Inner>(n); }
}  // namespace ns
inline int sumIds(const Base &a, const Base &b) { LOG("sumIds", a.id_, b.id_); return a.id_; }
inline std::shared_ptr<Base> pick(std::shared_ptr<Mid> m, bool asBase) { LOG("pick", m->id_, asBase); return m; }
