// Interface driven by the C11 session check: a three-level virtual chain, an unrelated class, a class in a
// namespace, objects passed by value / reference / shared pointer / raw pointer, objects returned by value /
// mutable reference (a copy reaches MATLAB) /
// shared pointer (static type = base, dynamic type = derived), properties, statics, free functions, defaults, pairs.
virtual class Base {
  Base();
  Base(int id);
  int id() const;
  int addTo(int x, int y = 10) const;
  Base* self() const;
  void absorb(const Base& other);
  double weigh(Base* other, double k = 2.5) const;
  int tag;
};
virtual class Mid : Base {
  Mid(int id);
  int twice() const;
  static Base* Make(int kind, int id);
};
virtual class Leaf : Mid {
  Leaf(int id, double w = 1.5);
  double weight() const;
  pair<int, double> both() const;
};
class Other {
  Other();
  Other(const Other& o, string name);
  string name() const;
  int probe(Base@ raw) const;
  Other twin() const;
  Other& me();
  static int Count();
  double gain;
};
namespace ns {
class Inner {
  Inner(size_t n = 3);
  size_t n() const;
  bool same(const ns::Inner& o) const;
};
ns::Inner* makeInner(size_t n);
}
int sumIds(const Base& a, const Base& b);
Base* pick(Mid* m, bool asBase = true);
