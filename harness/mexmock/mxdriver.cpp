// Driver for C18: executes the cases of spec/MxConvert.tla against the REAL matlab.h (mock MEX API, stand-in
// Vector / Matrix).  Protocol: one command per input line, one result line per command.
//   U <T> <class> <m> <n>        unwrap<T> of an m x n array of <class> whose k-th element (column-major) is token k
//   W <T> <rows> <cols>          wrap<T> of the value whose element (i,j) is token (i-1)*cols+j
//   V <T> <hex bytes>            wrap then unwrap one concrete value, compare bit for bit
//   H ...                        handle protocol (wrap_shared_ptr / unwrap_shared_ptr / unwrap_ptr / release)
#include "mock_mex.hpp"
#include <matlab.h>
#include <cstdio>
#include <iostream>
#include <sstream>

static std::string T_;      // trims
static mxClassID cls_of(const std::string &c) {
  if (c == "double") return mxDOUBLE_CLASS; if (c == "uint64") return mxUINT64_CLASS; if (c == "int64") return mxINT64_CLASS;
  if (c == "char") return mxCHAR_CLASS; if (c == "logical") return mxLOGICAL_CLASS; if (c == "int32") return mxINT32_CLASS;
  if (c == "single") return mxSINGLE_CLASS; throw std::runtime_error("class " + c);
}
static const char *name_of(mxClassID c) {
  switch (c) { case mxDOUBLE_CLASS: return "double"; case mxUINT64_CLASS: return "uint64"; case mxINT64_CLASS: return "int64";
    case mxCHAR_CLASS: return "char"; case mxLOGICAL_CLASS: return "logical"; case mxINT32_CLASS: return "int32";
    case mxSINGLE_CLASS: return "single"; default: return "other"; }
}
static void put(mxArray *a, size_t k, long tok) {      // element k (0-based, column-major) := token
  unsigned char *p = a->data.data() + k * mock::elemsize(a->cls);
  switch (a->cls) {
    case mxDOUBLE_CLASS: { double v = (double)tok; std::memcpy(p, &v, 8); break; }
    case mxSINGLE_CLASS: { float v = (float)tok; std::memcpy(p, &v, 4); break; }
    case mxUINT64_CLASS: case mxINT64_CLASS: { int64_t v = tok; std::memcpy(p, &v, 8); break; }
    case mxINT32_CLASS: { int32_t v = (int32_t)tok; std::memcpy(p, &v, 4); break; }
    case mxCHAR_CLASS: { mxChar v = (mxChar)('a' + tok - 1); std::memcpy(p, &v, 2); break; }
    case mxLOGICAL_CLASS: { *p = (unsigned char)(tok != 0); break; }
    default: break;
  }
}
static long get(const mxArray *a, size_t k) {
  const unsigned char *p = a->data.data() + k * mock::elemsize(a->cls);
  switch (a->cls) {
    case mxDOUBLE_CLASS: { double v; std::memcpy(&v, p, 8); return (long)v; }
    case mxUINT64_CLASS: case mxINT64_CLASS: { int64_t v; std::memcpy(&v, p, 8); return (long)v; }
    case mxCHAR_CLASS: { mxChar v; std::memcpy(&v, p, 2); return (long)v - 'a' + 1; }
    default: return -1;
  }
}
template <typename S> static std::string scalar_out(const mxArray *a) { std::ostringstream o; o << "ok 1 1 " << (long)unwrap<S>(a); return o.str(); }

static std::string do_unwrap(const std::string &T, const mxArray *a) {
  std::ostringstream o;
  if (T == "bool") { bool v = unwrap<bool>(a); o << "ok 1 1 " << (v ? 1 : 0); return o.str(); }   // tokens >1 collapse to true
  if (T == "char") return scalar_out<char>(a);
  if (T == "unsigned char") return scalar_out<unsigned char>(a);
  if (T == "int") return scalar_out<int>(a);
  if (T == "size_t") return scalar_out<size_t>(a);
  if (T == "double") return scalar_out<double>(a);
  if (T == "string") { std::string s = unwrap<std::string>(a); o << "ok 1 " << s.size(); for (char c : s) o << " " << (c - 'a' + 1); return o.str(); }
  if (T == "Vector" || T == "Point2" || T == "Point3") {
    gtsam::Vector v = T == "Vector" ? unwrap<gtsam::Vector>(a) : T == "Point2" ? (gtsam::Vector)unwrap<gtsam::Point2>(a) : (gtsam::Vector)unwrap<gtsam::Point3>(a);
    o << "ok " << v.size() << " 1"; for (int i = 0; i < v.size(); ++i) o << " " << (long)v(i); return o.str(); }
  if (T == "Matrix") { gtsam::Matrix A = unwrap<gtsam::Matrix>(a); o << "ok " << A.rows() << " " << A.cols();
    for (int i = 0; i < A.rows(); ++i) for (int j = 0; j < A.cols(); ++j) o << " " << (long)A(i, j); return o.str(); }
  throw std::runtime_error("type " + T);
}
static mxArray *do_wrap(const std::string &T, int r, int c) {
  auto tok = [&](int i, int j) { return (long)(i * c + j + 1); };
  if (T == "bool") return wrap<bool>(true);
  if (T == "char") return wrap<char>((char)1);
  if (T == "unsigned char") return wrap<unsigned char>((unsigned char)1);
  if (T == "int") return wrap<int>(1);
  if (T == "size_t") return wrap<size_t>(1);
  if (T == "double") return wrap<double>(1.0);
  if (T == "string") { std::string s; for (int j = 0; j < c; ++j) s.push_back((char)('a' + j)); return wrap<std::string>(s); }
  if (T == "Vector" || T == "Point2" || T == "Point3") { gtsam::Vector v(r); for (int i = 0; i < r; ++i) v(i) = (double)tok(i, 0);
    return T == "Vector" ? wrap<gtsam::Vector>(v) : T == "Point2" ? wrap<gtsam::Point2>(gtsam::Point2(v)) : wrap<gtsam::Point3>(gtsam::Point3(v)); }
  if (T == "Matrix") { gtsam::Matrix A(r, c); for (int i = 0; i < r; ++i) for (int j = 0; j < c; ++j) A(i, j) = (double)tok(i, j); return wrap<gtsam::Matrix>(A); }
  throw std::runtime_error("type " + T);
}
static std::vector<unsigned char> unhex(const std::string &h) {
  std::vector<unsigned char> b; for (size_t i = 0; i + 1 < h.size(); i += 2) b.push_back((unsigned char)std::stoi(h.substr(i, 2), nullptr, 16)); return b; }
template <typename S> static std::string value_rt(const std::vector<unsigned char> &b) {
  S v; std::memcpy(&v, b.data(), sizeof(S));
  mxArray *a = wrap<S>(v); S w = unwrap<S>(a);
  std::ostringstream o; o << (std::memcmp(&v, &w, sizeof(S)) == 0 ? "same " : "DIFF ") << name_of(a->cls) << " " << a->m << " " << a->n; mxDestroyArray(a); return o.str(); }

struct Obj { int id; static int live; Obj(int i) : id(i) { ++live; } virtual ~Obj() { --live; } };
int Obj::live = 0;

int main() {
  // MATLAB side of create_object: the proxy class constructor called with the pointer key stores the pointer
  mock::call_matlab = [](int nlhs, mxArray **plhs, int nrhs, mxArray **prhs, const char *name) -> int {
    mxArray *o = mock::make_object(name);
    if (nrhs == 3) {   // virtual form: what the generated upcastFromVoid routine does with the shared_ptr<void>
      std::shared_ptr<void> *asVoid = *reinterpret_cast<std::shared_ptr<void> **>(mxGetData(prhs[1]));
      mxArray *p = mxCreateNumericMatrix(1, 1, mxUINT32OR64_CLASS, mxREAL);
      *reinterpret_cast<std::shared_ptr<Obj> **>(mxGetData(p)) = new std::shared_ptr<Obj>(std::static_pointer_cast<Obj>(*asVoid));
      o->props["ptr_Obj"] = p;
    } else o->props["ptr_Obj"] = mxDuplicateArray(prhs[1]);
    plhs[0] = o; return 0; };
  // the RTTI registry a generated gateway sets up (_<module>_RTTIRegister): create_object looks the derived class up in it
  { mxArray *registry = mxCreateStructMatrix(1, 1, 0, NULL);
    int fieldId = mxAddField(registry, typeid(Obj).name());
    mxSetFieldByNumber(registry, 0, fieldId, mxCreateString("Obj"));
    mexPutVariable("global", "gtsamwrap_rttiRegistry", registry); mxDestroyArray(registry); }
  std::map<int, std::shared_ptr<Obj>> owners; std::map<int, mxArray *> handles; int nexth = 1;
  std::string line;
  while (std::getline(std::cin, line)) {
    std::istringstream in(line); std::string cmd; in >> cmd;
    try {
      if (cmd == "U") { std::string T, cl; size_t m, n; std::getline(in >> std::ws, T, '|'); in >> cl >> m >> n;
        mxArray *a = mxCreateNumericMatrix(m, n, cls_of(cl), mxREAL); for (size_t k = 0; k < m * n; ++k) put(a, k, (long)k + 1);
        std::string r; try { r = do_unwrap(T, a); } catch (MexError &e) { r = "err"; } mxDestroyArray(a); std::cout << r << "\n"; }
      else if (cmd == "W") { std::string T; int r, c; std::getline(in >> std::ws, T, '|'); in >> r >> c;
        mxArray *a = do_wrap(T, r, c); std::cout << name_of(a->cls) << " " << a->m << " " << a->n; for (size_t k = 0; k < a->m * a->n; ++k) std::cout << " " << get(a, k); std::cout << "\n"; mxDestroyArray(a); }
      else if (cmd == "V") { std::string T, hex; std::getline(in >> std::ws, T, '|'); in >> hex; auto b = unhex(hex); std::string r;
        if (T == "bool") r = value_rt<bool>(b); else if (T == "char") r = value_rt<char>(b); else if (T == "unsigned char") r = value_rt<unsigned char>(b);
        else if (T == "int") r = value_rt<int>(b); else if (T == "size_t") r = value_rt<size_t>(b); else if (T == "double") r = value_rt<double>(b);
        else if (T == "string") { std::string s(b.begin(), b.end()); mxArray *a = wrap<std::string>(s); std::string w = unwrap<std::string>(a);
          std::ostringstream o; o << (w == s ? "same " : "DIFF ") << name_of(a->cls) << " " << a->m << " " << a->n; r = o.str(); mxDestroyArray(a); }
        else if (T == "Matrix") { size_t rr = b[0], cc = b[1]; gtsam::Matrix A(rr, cc); for (size_t i = 0; i < rr; ++i) for (size_t j = 0; j < cc; ++j) { double v; std::memcpy(&v, &b[2 + 8 * (i * cc + j)], 8); A(i, j) = v; }
          mxArray *a = wrap<gtsam::Matrix>(A); gtsam::Matrix B = unwrap<gtsam::Matrix>(a); bool same = A.rows() == B.rows() && A.cols() == B.cols();
          for (size_t i = 0; same && i < rr; ++i) for (size_t j = 0; j < cc; ++j) { double x = A(i, j), y = B(i, j); if (std::memcmp(&x, &y, 8)) same = false; }
          std::ostringstream o; o << (same ? "same " : "DIFF ") << name_of(a->cls) << " " << a->m << " " << a->n; r = o.str(); mxDestroyArray(a); }
        std::cout << r << "\n"; }
      else if (cmd == "H") { std::string op; int x; in >> op >> x;
        if (op == "new") { owners[x] = std::make_shared<Obj>(x); std::cout << "count " << owners[x].use_count() << " live " << Obj::live << "\n"; }
        else if (op == "wrap") { mxArray *h = wrap_shared_ptr(owners.at(x), "Obj", false); handles[nexth] = h; std::cout << "h " << nexth++ << " count " << owners.at(x).use_count() << " live " << Obj::live << "\n"; }
        else if (op == "wrapvirtual") { mxArray *h = wrap_shared_ptr(owners.at(x), "Obj", true); handles[nexth] = h; std::cout << "h " << nexth++ << " count " << owners.at(x).use_count() << " live " << Obj::live << "\n"; }
        else if (op == "unwrap") { std::shared_ptr<Obj> p = unwrap_shared_ptr<Obj>(handles.at(x), "ptr_Obj"); std::cout << "obj " << p->id << " count " << p.use_count() - 1 << " live " << Obj::live << "\n"; }
        else if (op == "unwrapptr") { Obj *p = unwrap_ptr<Obj>(handles.at(x), "ptr_Obj"); std::shared_ptr<Obj> q = unwrap_shared_ptr<Obj>(handles.at(x), "ptr_Obj"); std::cout << (p == q.get() ? "sameobject" : "OTHERADDRESS") << "\n"; }
        else if (op == "release") { mxArray *h = handles.at(x); mxArray *pp = mxGetProperty(h, 0, "ptr_Obj"); std::shared_ptr<Obj> *sp = *reinterpret_cast<std::shared_ptr<Obj> **>(mxGetData(pp)); int id = (*sp)->id; long c = sp->use_count(); delete sp; mxDestroyArray(pp); mxDestroyArray(h); handles.erase(x); std::cout << "obj " << id << " count " << c - 1 << " live " << Obj::live << "\n"; }
        else if (op == "reset") {   // end of one behaviour: release what is left; every object must be gone afterwards
          for (auto &kv : handles) { mxArray *pp = mxGetProperty(kv.second, 0, "ptr_Obj"); delete *reinterpret_cast<std::shared_ptr<Obj> **>(mxGetData(pp)); mxDestroyArray(pp); mxDestroyArray(kv.second); }
          handles.clear(); owners.clear(); nexth = 1; std::cout << "reset live " << Obj::live << "\n"; }
        else if (op == "drop") { long c = owners.at(x).use_count(); owners.erase(x); std::cout << "count " << c - 1 << " live " << Obj::live << "\n"; } }
      else if (cmd == "Q") break;
    } catch (std::exception &e) { std::cout << "EXC " << e.what() << "\n"; }
  }
  return 0;
}
