/* Mock of the MATLAB MEX C API: exactly the functions used by matlab.h and by the generated <module>_wrapper.cpp.
 * Semantics follow the MathWorks documentation for the cases the wrappers rely on (zero-initialised numeric arrays,
 * column-major data, mxGetScalar converting the first element to double, mxArrayToString returning NULL for non-char
 * arrays, mexErrMsg* not returning).  Errors are C++ exceptions of type MexError (see mock_mex.hpp). */
#ifndef VERIF_MOCK_MEX_H
#define VERIF_MOCK_MEX_H
#include <stddef.h>
#include <stdint.h>
typedef struct mxArray_tag mxArray;
typedef size_t mwSize;
typedef size_t mwIndex;
typedef int32_t int32_T;
typedef uint16_t mxChar;
typedef enum { mxUNKNOWN_CLASS = 0, mxCELL_CLASS, mxSTRUCT_CLASS, mxLOGICAL_CLASS, mxCHAR_CLASS, mxVOID_CLASS,
               mxDOUBLE_CLASS, mxSINGLE_CLASS, mxINT8_CLASS, mxUINT8_CLASS, mxINT16_CLASS, mxUINT16_CLASS,
               mxINT32_CLASS, mxUINT32_CLASS, mxINT64_CLASS, mxUINT64_CLASS, mxFUNCTION_CLASS, mxOBJECT_CLASS } mxClassID;
typedef enum { mxREAL = 0, mxCOMPLEX } mxComplexity;
mxArray *mxCreateNumericArray(mwSize ndim, const mwSize *dims, mxClassID classid, mxComplexity flag);
mxArray *mxCreateNumericMatrix(mwSize m, mwSize n, mxClassID classid, mxComplexity flag);
mxArray *mxCreateUninitNumericMatrix(mwSize m, mwSize n, mxClassID classid, mxComplexity flag);
mxArray *mxCreateUninitNumericArray(mwSize ndim, mwSize *dims, mxClassID classid, mxComplexity flag);
mxArray *mxCreateDoubleMatrix(mwSize m, mwSize n, mxComplexity flag);
mxArray *mxCreateDoubleScalar(double value);
mxArray *mxCreateString(const char *str);
mxArray *mxCreateStructMatrix(mwSize m, mwSize n, int nfields, const char **fieldnames);
mxArray *mxDuplicateArray(const mxArray *in);
void mxDestroyArray(mxArray *a);
void *mxGetData(const mxArray *a);
double *mxGetPr(const mxArray *a);
size_t mxGetM(const mxArray *a);
size_t mxGetN(const mxArray *a);
mxClassID mxGetClassID(const mxArray *a);
bool mxIsDouble(const mxArray *a);
bool mxIsComplex(const mxArray *a);
double mxGetScalar(const mxArray *a);
char *mxArrayToString(const mxArray *a);
int mxGetString(const mxArray *a, char *buf, mwSize buflen);
void mxFree(void *p);
mxArray *mxGetProperty(const mxArray *a, mwIndex index, const char *propname);
mxArray *mxGetField(const mxArray *a, mwIndex index, const char *fieldname);
int mxAddField(mxArray *a, const char *fieldname);
void mxSetFieldByNumber(mxArray *a, mwIndex index, int fieldnumber, mxArray *value);
int mexCallMATLAB(int nlhs, mxArray *plhs[], int nrhs, mxArray *prhs[], const char *name);
int mexAtExit(void (*fn)(void));
mxArray *mexGetVariable(const char *workspace, const char *name);
const mxArray *mexGetVariablePtr(const char *workspace, const char *name);
int mexPutVariable(const char *workspace, const char *name, const mxArray *value);
void mexErrMsgTxt(const char *msg);
void mexErrMsgIdAndTxt(const char *id, const char *msg, ...);
int mexPrintf(const char *fmt, ...);
#endif
