// Driver for C11: the generated <module>_wrapper.cpp (#included below, so its static collectors are visible), the real
// matlab.h, the MEX mock, an instrumented library, and an emulation of what the generated .m files do
// (constructor frames with the pointer key, base-constructor chaining, delete per inheritance level, overload
// selection by nargin / isa in file order).  The class table comes from the scanned .m files (table file, argv[1]).
// One command per input line, one result line per command:
//   R <results> | L <class>=<live> ... | C <collector>=<size> ... | G <library call log>        or    E <message>
#include "mock_mex.hpp"
#include SESSION_LIB
#include SESSION_WRAPPER
#include "collectors.inc"      // generated: collector_size(name), collector names
#include <fstream>
#include <iostream>
#include <sstream>

struct Guard { int index; std::string type; };
struct Overload { int id; int nargs; int nout; std::vector<Guard> guards; };
struct ClassInfo { std::string name, parent, ptrprop; bool isvirtual; int upcast, collector, del; std::vector<Overload> ctors;
                   std::map<std::string, std::vector<Overload>> methods, statics; std::map<std::string, int> getters, setters; };
static std::map<std::string, ClassInfo> classes;
static std::map<std::string, std::vector<Overload>> functions;
static std::map<std::string, mxArray *> vars;
static int fresh = 0;

static bool isa(const mxArray *a, const std::string &t) {
  if (t == "double") return a->cls == mxDOUBLE_CLASS;
  if (t == "numeric") return a->cls == mxDOUBLE_CLASS || a->cls == mxUINT64_CLASS || a->cls == mxINT64_CLASS || a->cls == mxINT32_CLASS;
  if (t == "char") return a->cls == mxCHAR_CLASS;
  if (t == "logical") return a->cls == mxLOGICAL_CLASS;
  if (a->cls != mxOBJECT_CLASS) return false;
  std::string c = a->classname;
  while (!c.empty() && c != "handle") { if (c == t) return true; auto it = classes.find(c); if (it == classes.end()) break; c = it->second.parent; }
  return false;
}
static mxArray *num(double v) { return mxCreateDoubleScalar(v); }
static std::vector<mxArray *> gateway(int id, int nargout, const std::vector<mxArray *> &args) {
  std::vector<mxArray *> in; in.push_back(num(id)); for (auto a : args) in.push_back(a);
  std::vector<mxArray *> out(nargout > 0 ? nargout : 1, nullptr);
  try { mexFunction(nargout, out.data(), (int)in.size(), (const mxArray **)in.data()); }
  catch (...) { mxDestroyArray(in[0]); throw; }
  mxDestroyArray(in[0]);
  out.resize(nargout);
  return out;
}
// the key branch of a generated constructor: adopt a pointer, register it, chain to the base class
static void adopt(mxArray *obj, const std::string &cls, mxArray *ptr, bool viaVoid) {
  ClassInfo &c = classes.at(cls);
  mxArray *my = ptr;
  if (viaVoid) my = gateway(c.upcast, 1, {ptr})[0];
  bool hasparent = c.parent != "handle";
  std::vector<mxArray *> r = gateway(c.collector, hasparent ? 1 : 0, {my});
  if (hasparent) adopt(obj, c.parent, r[0], false);
  obj->props[c.ptrprop] = mxDuplicateArray(my);
}
static const Overload *select(const std::vector<Overload> &ovs, const std::vector<mxArray *> &args) {
  for (auto &o : ovs) {       // first match in file order, as MATLAB evaluates the if / elseif chain
    if ((int)args.size() != o.nargs) continue;
    bool ok = true; for (auto &g : o.guards) if (!isa(args.at(g.index - 1), g.type)) ok = false;
    if (ok) return &o;
  }
  return nullptr;
}
static mxArray *construct(const std::string &cls, const std::vector<mxArray *> &args) {
  ClassInfo &c = classes.at(cls);
  const Overload *o = select(c.ctors, args);
  if (!o) throw MexError("matlab", "Arguments do not match any overload of " + cls + " constructor");
  bool hasparent = c.parent != "handle";
  std::vector<mxArray *> r = gateway(o->id, hasparent ? 2 : 1, args);
  mxArray *obj = mock::make_object(cls);
  if (hasparent) adopt(obj, c.parent, r[1], false);
  obj->props[c.ptrprop] = mxDuplicateArray(r[0]);
  return obj;
}
static void destroy(mxArray *obj) {        // MATLAB runs delete of the class and then of every superclass
  std::string cls = obj->classname;
  while (cls != "handle") { ClassInfo &c = classes.at(cls); gateway(c.del, 0, {obj->props.at(c.ptrprop)}); cls = c.parent; }
}
static std::string show(mxArray *a) {
  std::ostringstream o;
  if (!a) return "null";
  if (a->cls == mxOBJECT_CLASS) {
    std::string name = "r" + std::to_string(++fresh); vars[name] = a;
    ClassInfo &c = classes.at(a->classname);
    mxArray *p = a->props.at(c.ptrprop);
    void *sp = *reinterpret_cast<void **>(mxGetData(p));
    void *objaddr = *reinterpret_cast<void **>(sp);                 // first word of a shared_ptr is the object pointer
    o << "obj:" << name << ":" << a->classname << ":" << objaddr; return o.str(); }
  if (a->cls == mxCHAR_CLASS) { char *s = mxArrayToString(a); o << "str:" << s; mxFree(s); return o.str(); }
  if (a->m * a->n != 1) { o << "array:" << a->m << "x" << a->n; return o.str(); }
  if (a->cls == mxDOUBLE_CLASS) { o << "num:" << mxGetScalar(a); return o.str(); }
  if (a->cls == mxUINT64_CLASS) { int64_t v; std::memcpy(&v, a->data.data(), 8); o << "num:" << v; return o.str(); }
  o << "other"; return o.str();
}
static mxArray *arg(const std::string &t) {
  std::string k = t.substr(0, 2), v = t.substr(2);
  if (k == "i:" || k == "d:") return num(std::stod(v));
  if (k == "b:") { mxArray *a = mxCreateNumericMatrix(1, 1, mxLOGICAL_CLASS, mxREAL); a->data[0] = v == "1"; return a; }
  if (k == "s:") return mxCreateString(v.c_str());
  if (k == "o:") return vars.at(v);
  throw std::runtime_error("arg " + t);
}
static void load(const char *path) {
  std::ifstream f(path); std::string line;
  while (std::getline(f, line)) {
    std::istringstream in(line); std::string k; in >> k;
    auto readov = [&](Overload &o) { int ng; in >> o.id >> o.nargs >> o.nout >> ng; for (int i = 0; i < ng; ++i) { Guard g; in >> g.index >> g.type; o.guards.push_back(g); } };
    if (k == "class") { ClassInfo c; int v; in >> c.name >> c.parent >> v >> c.ptrprop >> c.upcast >> c.collector >> c.del; c.isvirtual = v; classes[c.name] = c; }
    else if (k == "ctor") { std::string c; in >> c; Overload o; readov(o); classes.at(c).ctors.push_back(o); }
    else if (k == "method") { std::string c, m; in >> c >> m; Overload o; readov(o); classes.at(c).methods[m].push_back(o); }
    else if (k == "static") { std::string c, m; in >> c >> m; Overload o; readov(o); classes.at(c).statics[m].push_back(o); }
    else if (k == "get") { std::string c, p; int id; in >> c >> p >> id; classes.at(c).getters[p] = id; }
    else if (k == "set") { std::string c, p; int id; in >> c >> p >> id; classes.at(c).setters[p] = id; }
    else if (k == "func") { std::string n; in >> n; Overload o; readov(o); functions[n].push_back(o); }
  }
}
static const ClassInfo *owner_of(const std::string &dyn, const std::string &member, bool getter, bool setter) {
  std::string cls = dyn;
  while (cls != "handle") { const ClassInfo &c = classes.at(cls);
    if (getter ? c.getters.count(member) : setter ? c.setters.count(member) : c.methods.count(member)) return &c; cls = c.parent; }
  return nullptr;
}
int main(int argc, char **argv) {
  load(argv[1]);
  mock::call_matlab = [](int, mxArray **plhs, int nrhs, mxArray **prhs, const char *name) -> int {
    if (!classes.count(name)) throw MexError("matlab", std::string("Undefined function or class ") + name);
    mxArray *obj = mock::make_object(name);
    adopt(obj, name, prhs[1], nrhs == 3);
    plhs[0] = obj; return 0; };
  std::string line;
  while (std::getline(std::cin, line)) {
    std::istringstream in(line); std::string cmd; in >> cmd; if (cmd == "quit") break;
    std::vector<std::string> toks; std::string t; while (in >> t) toks.push_back(t);
    std::ostringstream res;
    try {
      auto args_from = [&](size_t i) { std::vector<mxArray *> a; for (; i < toks.size(); ++i) a.push_back(arg(toks[i])); return a; };
      auto free_temps = [&](const std::vector<mxArray *> &a) { for (auto x : a) if (x->cls != mxOBJECT_CLASS) mxDestroyArray(x); };
      if (cmd == "new") { auto a = args_from(2); mxArray *o = construct(toks[1], a); vars[toks[0]] = o; free_temps(a); res << "obj:" << toks[0] << ":" << o->classname << ":" << *reinterpret_cast<void **>(*reinterpret_cast<void **>(mxGetData(o->props.at(classes.at(o->classname).ptrprop)))); }
      else if (cmd == "call") { mxArray *self = vars.at(toks[0]); const ClassInfo *c = owner_of(self->classname, toks[1], false, false);
        if (!c) throw MexError("matlab", "no method " + toks[1]); auto a = args_from(2); const Overload *o = select(c->methods.at(toks[1]), a);
        if (!o) throw MexError("matlab", "Arguments do not match any overload of function " + c->name + "." + toks[1]);
        std::vector<mxArray *> in2; in2.push_back(self); for (auto x : a) in2.push_back(x);
        auto r = gateway(o->id, o->nout, in2); for (size_t i = 0; i < r.size(); ++i) res << (i ? " " : "") << show(r[i]); free_temps(a); }
      else if (cmd == "static") { const ClassInfo &c = classes.at(toks[0]); auto a = args_from(2); const Overload *o = select(c.statics.at(toks[1]), a);
        if (!o) throw MexError("matlab", "Arguments do not match any overload of function " + c.name + "." + toks[1]);
        auto r = gateway(o->id, o->nout, a); for (size_t i = 0; i < r.size(); ++i) res << (i ? " " : "") << show(r[i]); free_temps(a); }
      else if (cmd == "func") { auto a = args_from(1); const Overload *o = select(functions.at(toks[0]), a);
        if (!o) throw MexError("matlab", "Arguments do not match any overload of function " + toks[0]);
        auto r = gateway(o->id, o->nout, a); for (size_t i = 0; i < r.size(); ++i) res << (i ? " " : "") << show(r[i]); free_temps(a); }
      else if (cmd == "get") { mxArray *self = vars.at(toks[0]); const ClassInfo *c = owner_of(self->classname, toks[1], true, false); auto r = gateway(c->getters.at(toks[1]), 1, {self}); res << show(r[0]); }
      else if (cmd == "set") { mxArray *self = vars.at(toks[0]); const ClassInfo *c = owner_of(self->classname, toks[1], false, true); auto a = args_from(2); gateway(c->setters.at(toks[1]), 0, {self, a[0]}); free_temps(a); }
      else if (cmd == "del") { mxArray *o = vars.at(toks[0]); destroy(o); vars.erase(toks[0]); mxDestroyArray(o); }
      else if (cmd == "unload") { mock::run_at_exit(); }
      else throw std::runtime_error("command " + cmd);
      std::cout << "R " << res.str();
    } catch (MexError &e) { std::string m = e.what(); for (auto &ch : m) if (ch == '\n') ch = ' '; std::cout << "E " << m; }
    catch (std::exception &e) { std::cout << "X " << e.what(); }
    std::cout << " | L"; for (auto &kv : livecount) std::cout << " " << kv.first << "=" << kv.second;
    std::cout << " | C"; for (auto &n : collector_names) std::cout << " " << n << "=" << collector_size(n);
    std::cout << " | G"; for (auto &l : calllog) std::cout << " " << l; calllog.clear();
    std::cout << std::endl;
  }
  return 0;
}
