#include "mock_mex.hpp"
#include <cstdarg>
#include <cstdio>
namespace mock {
long live_arrays = 0;
std::function<int(int, mxArray **, int, mxArray **, const char *)> call_matlab;
std::vector<void (*)(void)> at_exit;
std::map<std::string, mxArray *> globals;
size_t elemsize(mxClassID c) {
  switch (c) {
    case mxDOUBLE_CLASS: case mxINT64_CLASS: case mxUINT64_CLASS: return 8;
    case mxSINGLE_CLASS: case mxINT32_CLASS: case mxUINT32_CLASS: return 4;
    case mxINT16_CLASS: case mxUINT16_CLASS: case mxCHAR_CLASS: return 2;
    case mxINT8_CLASS: case mxUINT8_CLASS: case mxLOGICAL_CLASS: return 1;
    default: return 0;
  }
}
static mxArray *alloc(mxClassID c, size_t m, size_t n) {
  mxArray *a = new mxArray_tag();
  a->cls = c; a->m = m; a->n = n;
  a->data.assign(elemsize(c) * m * n, 0);        // MATLAB zero-initialises
  ++live_arrays;
  return a;
}
mxArray *make_object(const std::string &classname) {
  mxArray *a = alloc(mxOBJECT_CLASS, 1, 1);
  a->classname = classname;
  return a;
}
void run_at_exit() {
  std::vector<void (*)(void)> fs = at_exit;
  at_exit.clear();
  for (auto f : fs) f();
}
}  // namespace mock
using namespace mock;
extern "C" {
mxArray *mxCreateNumericArray(mwSize ndim, const mwSize *dims, mxClassID classid, mxComplexity) {
  size_t m = ndim >= 1 ? dims[0] : 1, n = 1;
  for (mwSize i = 1; i < ndim; ++i) n *= dims[i];
  return alloc(classid, m, n);
}
mxArray *mxCreateNumericMatrix(mwSize m, mwSize n, mxClassID classid, mxComplexity) { return alloc(classid, m, n); }
// the uninitialised variants: MATLAB leaves the memory as it is - the mock fills it with a recognisable pattern
mxArray *mxCreateUninitNumericMatrix(mwSize m, mwSize n, mxClassID classid, mxComplexity) {
  mxArray *a = alloc(classid, m, n); for (auto &b : a->data) b = (unsigned char)0xA5; return a; }
mxArray *mxCreateUninitNumericArray(mwSize ndim, mwSize *dims, mxClassID classid, mxComplexity c) {
  return mxCreateUninitNumericMatrix(ndim > 0 ? dims[0] : 1, ndim > 1 ? dims[1] : 1, classid, c); }
mxArray *mxCreateDoubleMatrix(mwSize m, mwSize n, mxComplexity) { return alloc(mxDOUBLE_CLASS, m, n); }
mxArray *mxCreateDoubleScalar(double value) {
  mxArray *a = alloc(mxDOUBLE_CLASS, 1, 1);
  std::memcpy(a->data.data(), &value, 8);
  return a;
}
mxArray *mxCreateString(const char *str) {
  size_t len = std::strlen(str);
  mxArray *a = alloc(mxCHAR_CLASS, len ? 1 : 0, len);
  for (size_t i = 0; i < len; ++i) { mxChar c = (unsigned char)str[i]; std::memcpy(&a->data[2 * i], &c, 2); }
  return a;
}
mxArray *mxCreateStructMatrix(mwSize m, mwSize n, int nfields, const char **fieldnames) {
  mxArray *a = alloc(mxSTRUCT_CLASS, m, n);
  for (int i = 0; i < nfields; ++i) a->fieldnames.push_back(fieldnames[i]);
  return a;
}
mxArray *mxDuplicateArray(const mxArray *in) {
  mxArray *a = new mxArray_tag(*in);
  ++live_arrays;
  for (auto &kv : a->props) kv.second = mxDuplicateArray(kv.second);
  return a;
}
void mxDestroyArray(mxArray *a) {
  if (!a) return;
  for (auto &kv : a->props) mxDestroyArray(kv.second);
  --live_arrays;
  delete a;
}
void *mxGetData(const mxArray *a) { return a->data.empty() ? nullptr : (void *)a->data.data(); }
double *mxGetPr(const mxArray *a) { return (double *)mxGetData(a); }
size_t mxGetM(const mxArray *a) { return a->m; }
size_t mxGetN(const mxArray *a) { return a->n; }
mxClassID mxGetClassID(const mxArray *a) { return a->cls; }
bool mxIsDouble(const mxArray *a) { return a->cls == mxDOUBLE_CLASS; }
bool mxIsComplex(const mxArray *a) { return a->complex; }
double mxGetScalar(const mxArray *a) {
  if (a->data.empty()) return 0.0;                  // documented: undefined for empty arrays
  const unsigned char *p = a->data.data();
  switch (a->cls) {
    case mxDOUBLE_CLASS: { double v; std::memcpy(&v, p, 8); return v; }
    case mxSINGLE_CLASS: { float v; std::memcpy(&v, p, 4); return v; }
    case mxINT8_CLASS: return (double)*(const int8_t *)p;
    case mxUINT8_CLASS: case mxLOGICAL_CLASS: return (double)*(const uint8_t *)p;
    case mxINT16_CLASS: { int16_t v; std::memcpy(&v, p, 2); return v; }
    case mxUINT16_CLASS: case mxCHAR_CLASS: { uint16_t v; std::memcpy(&v, p, 2); return v; }
    case mxINT32_CLASS: { int32_t v; std::memcpy(&v, p, 4); return v; }
    case mxUINT32_CLASS: { uint32_t v; std::memcpy(&v, p, 4); return v; }
    case mxINT64_CLASS: { int64_t v; std::memcpy(&v, p, 8); return (double)v; }
    case mxUINT64_CLASS: { uint64_t v; std::memcpy(&v, p, 8); return (double)v; }
    default: return 0.0;
  }
}
char *mxArrayToString(const mxArray *a) {
  if (a->cls != mxCHAR_CLASS) return nullptr;
  size_t len = a->m * a->n;
  char *s = (char *)std::malloc(len + 1);
  for (size_t i = 0; i < len; ++i) { mxChar c; std::memcpy(&c, &a->data[2 * i], 2); s[i] = (char)c; }
  s[len] = 0;
  return s;
}
int mxGetString(const mxArray *a, char *buf, mwSize buflen) {
  if (a->cls != mxCHAR_CLASS) return 1;
  size_t len = a->m * a->n;
  if (len + 1 > buflen) return 1;
  for (size_t i = 0; i < len; ++i) { mxChar c; std::memcpy(&c, &a->data[2 * i], 2); buf[i] = (char)c; }
  buf[len] = 0;
  return 0;
}
void mxFree(void *p) { std::free(p); }
mxArray *mxGetProperty(const mxArray *a, mwIndex, const char *propname) {
  auto it = a->props.find(propname);
  if (it == a->props.end()) throw MexError("mock:noprop", std::string("object of class ") + a->classname + " has no property " + propname);
  return mxDuplicateArray(it->second);            // documented: returns a copy
}
mxArray *mxGetField(const mxArray *a, mwIndex, const char *fieldname) {
  auto it = a->props.find(fieldname);
  return it == a->props.end() ? nullptr : it->second;
}
int mxAddField(mxArray *a, const char *fieldname) {
  for (size_t i = 0; i < a->fieldnames.size(); ++i) if (a->fieldnames[i] == fieldname) return (int)i;
  a->fieldnames.push_back(fieldname);
  return (int)a->fieldnames.size() - 1;
}
void mxSetFieldByNumber(mxArray *a, mwIndex, int fieldnumber, mxArray *value) {
  std::string f = a->fieldnames.at(fieldnumber);
  auto it = a->props.find(f);
  if (it != a->props.end()) mxDestroyArray(it->second);
  a->props[f] = value;
}
int mexCallMATLAB(int nlhs, mxArray *plhs[], int nrhs, mxArray *prhs[], const char *name) {
  if (!call_matlab) throw MexError("mock:nocallback", std::string("mexCallMATLAB(") + name + ") without handler");
  return call_matlab(nlhs, plhs, nrhs, prhs, name);
}
int mexAtExit(void (*fn)(void)) {
  for (auto f : at_exit) if (f == fn) return 0;
  at_exit.push_back(fn);                           // MATLAB keeps one exit function per MEX file
  return 0;
}
mxArray *mexGetVariable(const char *, const char *name) {
  auto it = globals.find(name);
  return it == globals.end() ? nullptr : mxDuplicateArray(it->second);
}
const mxArray *mexGetVariablePtr(const char *, const char *name) {
  auto it = globals.find(name);
  return it == globals.end() ? nullptr : it->second;
}
int mexPutVariable(const char *, const char *name, const mxArray *value) {
  auto it = globals.find(name);
  if (it != globals.end()) mxDestroyArray(it->second);
  globals[name] = mxDuplicateArray(value);
  return 0;
}
void mexErrMsgTxt(const char *msg) { throw MexError("", msg); }
void mexErrMsgIdAndTxt(const char *id, const char *msg, ...) { throw MexError(id, msg ? msg : ""); }
int mexPrintf(const char *, ...) { return 0; }
}
