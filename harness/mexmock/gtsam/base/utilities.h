// Stand-in for gtsam/base/utilities.h: the real header brings in these standard headers transitively.
#pragma once
#include <cstdint>
#include <iostream>
#include <map>
#include <memory>
#include <string>
#include <vector>
