// Stand-in for gtsam::Matrix: a dynamic matrix of doubles (storage order is private to the class, as in Eigen).
#pragma once
#include <vector>
namespace gtsam {
class Matrix {
 public:
  Matrix() : r_(0), c_(0) {}
  Matrix(int r, int c) : r_(r), c_(c), d_((size_t)r * c, 0.0) {}
  int rows() const { return r_; }
  int cols() const { return c_; }
  double &operator()(int i, int j) { return d_.at((size_t)i * c_ + j); }      // row-major on purpose
  double operator()(int i, int j) const { return d_.at((size_t)i * c_ + j); }
  bool operator==(const Matrix &o) const { return r_ == o.r_ && c_ == o.c_ && d_ == o.d_; }
 private:
  int r_, c_;
  std::vector<double> d_;
};
}  // namespace gtsam
