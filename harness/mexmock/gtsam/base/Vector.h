// Stand-in for gtsam::Vector (Eigen is not available): a dynamic column vector of doubles.
#pragma once
#include <cstddef>
#include <vector>
namespace gtsam {
class Vector {
 public:
  Vector() {}
  explicit Vector(int n) : d_(n, 0.0) {}
  Vector(std::initializer_list<double> l) : d_(l) {}
  int size() const { return (int)d_.size(); }
  double &operator()(int i) { return d_.at(i); }
  double operator()(int i) const { return d_.at(i); }
  bool operator==(const Vector &o) const { return d_ == o.d_; }
  std::vector<double> d_;
};
}  // namespace gtsam
