#pragma once
#include <gtsam/base/Vector.h>
namespace gtsam {
class Point3 : public Vector {
 public:
  Point3() : Vector(3) {}
  Point3(double x, double y, double z) : Vector({x, y, z}) {}
  Point3(const Vector &v) : Vector(v) {}
};
}  // namespace gtsam
