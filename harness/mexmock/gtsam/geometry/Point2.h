#pragma once
#include <gtsam/base/Vector.h>
namespace gtsam {
// distinct class, convertible from / to Vector like Eigen::Vector2d
class Point2 : public Vector {
 public:
  Point2() : Vector(2) {}
  Point2(double x, double y) : Vector({x, y}) {}
  Point2(const Vector &v) : Vector(v) {}
};
}  // namespace gtsam
