// C++ side of the MEX mock: the mxArray representation and the hooks the drivers use.
#pragma once
#include <cstring>
#include <functional>
#include <map>
#include <stdexcept>
#include <string>
#include <vector>
extern "C" {
#include "mex.h"
}
struct MexError : std::runtime_error {
  std::string id;
  MexError(const std::string &i, const std::string &m) : std::runtime_error(m), id(i) {}
};
struct mxArray_tag {
  mxClassID cls = mxUNKNOWN_CLASS;
  size_t m = 0, n = 0;
  bool complex = false;
  std::vector<unsigned char> data;                 // numeric / char payload, column-major
  std::string classname;                            // for MATLAB objects (cls == mxOBJECT_CLASS)
  std::map<std::string, mxArray *> props;           // object properties / struct fields
  std::vector<std::string> fieldnames;
};
namespace mock {
size_t elemsize(mxClassID c);
extern long live_arrays;                                              // mxArrays alive (leak accounting of the mock itself)
extern std::function<int(int, mxArray **, int, mxArray **, const char *)> call_matlab;   // mexCallMATLAB handler
extern std::vector<void (*)(void)> at_exit;                            // functions registered with mexAtExit
extern std::map<std::string, mxArray *> globals;                       // the "global" workspace
mxArray *make_object(const std::string &classname);
void run_at_exit();
}
