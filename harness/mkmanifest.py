"""Regenerates MANIFEST.json from the table below (keeps it valid at all times)."""
import json
import os

VERIF = os.path.dirname(os.path.dirname(os.path.abspath(__file__)))
ALL = ["C%02d" % i for i in range(1, 20)]

CHECKS = {
    "C01": dict(
        category="model_checking",
        technique="TLA+ derivation machine (TLC simulate + exhaustive universes) replayed into Module.parseString; "
                  "TLC trace validation (Explains) of fixture parses",
        text="TLC explores spec/IfaceDerive.tla (random walks and four exhaustive universes: type expressions x "
             "positions, signatures, class shapes, namespace nestings) with the machine's own invariants checked in every "
             "state; each terminal state (tokens + the tree the spec says they mean) is replayed into the real parser and "
             "the projected result must equal the spec's tree. Fixtures go the other way: TLC decides whether the "
             "observed tree explains every token.",
        note="Trusted: TLC, the layout writer (tokens->text), the projection of parser objects to records. Bounded by the "
             "identifier/type pools of the spec and by type nesting depth (exhaustive to depth 1-2, deeper by simulation).",
        design="6/C01"),
    "C07": dict(
        category="fault_enumeration",
        technique="TLA+ fault model (Corrupt!ApplyCorrupt) enumerated over derivations; accepted inputs decided by TLC "
                  "trace validation (Explains); file-system effects of failing runs observed",
        text="Every single-token delete/duplicate/swap/truncate/stray-insert/bracket-flip of TLC-derived modules and "
             "fixtures is replayed into the parser. Rejected: the run must fail and (API and both scripts, sampled) leave "
             "the output directory untouched. Accepted: TLC re-applies the fault itself and decides whether the returned "
             "tree accounts for every token (Iface!Explains), so a silently dropped or half-used token is a violation.",
        note="Single faults only. Any exception counts as loud rejection (kinds recorded in evidence). Quick tier samples "
             "stray insertions on large modules; thorough enumerates all faults of each module. Trusted: layout writer, "
             "lexer regrouping (itself verified by TLC: IfaceTrace!Regrouped), projection.",
        design="6/C07"),
    "C12": dict(
        category="model_checking",
        technique="TLA+ Layout spec (Relayout is stuttering, TLC-checked) + replay of Relayout steps into parser and both "
                  "generators",
        text="spec/Layout.tla states that trivia changes leave every observable unchanged (action property checked by "
             "TLC). Binding: for TLC-derived modules and fixtures every gap is re-laid once with non-canonical trivia "
             "(whitespace, newlines, hostile C/C++ comments) and the parse result must stay the tree the spec emitted; "
             "all-gaps-at-once re-layouts additionally compare wrap_file text and the MATLAB file tree byte for byte.",
        note="Tokens are C++-lexical tokens, defaults opaque. One trivia per gap per module in the quick tier (rotating "
             "through the pool). Three classes of genuine deviations are known findings (see known_findings.json).",
        design="6/C12"),
    "C02": dict(
        category="model_checking",
        technique="TLA+ substitution/instantiation oracle (Instantiate.tla) evaluated by TLC on every case; leafwise "
                  "comparison with the implementation's instantiated tree; deviation model for classification",
        text="For TLC-derived modules (random walks; path-exhaustive type universe x every position with plain, "
             "namespaced, templated and numeric arguments; signature and instantiation-shape universes) and the fixtures, "
             "TLC computes the substituted C++ spelling and qualifier flags of every argument, return, property, "
             "operator, dunder and base-class type of every instantiation; the harness compares them with to_cpp() and "
             "the flags of the real instantiated objects.",
        note="Spellings compared modulo blanks after commas. Nesting depth 1 (quick) / 2 (thorough) exhaustive along "
             "paths, deeper only by simulation. Three analysed deviations are known findings, matched only when the "
             "observed spelling equals the spec's transcription of the deviating rule (Mode = dev).",
        design="6/C02"),
    "C08": dict(
        category="model_checking",
        technique="TLA+ instantiation oracle (Product, typedef resolution, naming) evaluated by TLC; structural "
                  "comparison incl. error outcomes; laws checked by TLC (InstLaws)",
        text="Same pipeline as C02 but judging count, order, names, C++ names, scope and pass-through of every item of "
             "the instantiated tree, and the outcome (a module whose typedef target is missing or ambiguous must be "
             "rejected, an instantiable one must not). Universe: every sequence of <=2 (quick) / <=3 (thorough) "
             "declarations from templates with 1-3 parameters and list lengths 0-5, typedefs of classes / functions / "
             "forward declarations in and across namespaces, pass-through declarations.",
        note="typedef of a non-template is treated as outside the dialect (not judged).",
        design="6/C08"),
    "C13": dict(
        category="model_checking",
        technique="TLA+ variant transformations (Variants.tla) + laws model-checked on the oracle; relational replay of "
                  "original and variants through the implementation",
        text="TLC proves on the oracle that keeping one combination, reversing the lists and renaming parameters leave "
             "each instantiation unchanged; TLC renders these variants for every derived module and the harness compares "
             "instantiated records, per-class pybind blocks, and (renaming) whole pybind and MATLAB outputs.",
        note="Variants are applied to all templated declarations of a module at once. One known finding (consequence of "
             "C02-deep-param).",
        design="6/C13"),
    "C03": dict(
        category="model_checking",
        technique="TLA+ registration machine (PyBind.tla: Expected, DefSubmodule/Register) run by TLC on scanned events "
                  "of the generated translation unit; (executed) dir() of every module / class object of built modules compared "
                  "with the names PyCall!ExposeNs derives",
        text="For TLC-derived modules and fixtures x option sets (top namespace at every depth incl. non-matching, "
             "ignore lists, serialization) the generated C++ is scanned into registration events; TLC computes the "
             "expected registrations from the instantiated tree and runs the machine: every event must be an enabled "
             "step (submodule created once and before use, binding pending, placed in an existing module) and nothing "
             "may remain pending.",
        note="Order of registrations is free. Trusted: the scanner (harness/proj_py.py, self-validated on the goldens). "
             "Executed half ('call' profile, top namespace [''], no ignore list): the public attributes of each module and "
             "class object must be exactly the declared names (inherited ones included).",
        design="6/C03, 12.6"),
    "C04": dict(
        category="model_checking",
        technique="(static) same machine as C03: forwarding fields of each binding record (lambda parameters, callee, call "
                  "arguments, keyword names/defaults, return presence, static vs instance, property writability, "
                  "enumerator values, base class) compared by TLC, plus Iface!CppSpelling of every type; (executed) TLC "
                  "computes a Python session plan per module with spec/PyCall.tla, the real generated unit is compiled "
                  "against a rendered instrumented library, imported and driven through the plan, the library's call log "
                  "and the results are compared step by step",
        text="Static half: every registration's forwarding fields must equal the record the specification derives "
             "from the declaration (PyBind!DiffField names the first differing field); every type's C++ spelling must "
             "equal the spelling of its structure.  Executed half ('call' profile of IfaceSim: basic / string / "
             "declared-class parameters): each constructor, method, static method and function binding is called "
             "positionally, with reversed keywords and with trailing defaults omitted; the library must log the declared "
             "entity (class, member, explicit template arguments) with the values in declared order and the declared "
             "defaults, self first for instance calls; void gives None, non-void the declared kind; properties read "
             "back, const ones refuse assignment; enumerators have their declared positions; derived classes are "
             "subclasses of their base.",
        note="Executed half: top namespace [''] and empty ignore list only; operators and dunder methods are judged "
             "statically only; modules binding one C++ type twice are not judged (pybind11 refuses the import).",
        design="6/C04, 12.6"),
    "C15": dict(
        category="model_checking",
        technique="TLA+ removal transformation (Variants!Removals, rendered by TLC) + relational replay: ignore vs "
                  "remove vs original, both generators",
        text="For every derived module TLC renders the module with one declaration removed; three real runs per "
             "(module, declaration) are compared: pybind text with the class ignored must equal the text with the class "
             "removed byte for byte, the registration events of the original minus the class's (or declaration's) "
             "artefacts must equal those of the reduced module; MATLAB file trees are compared with gateway ids "
             "canonicalised by rank.",
        note="Only declarations whose name is unique in the module are judged (namesakes cannot be told apart in the "
             "output). MATLAB ignore entries are spelled namespace::InstantiatedName as the generator expects.",
        design="6/C15"),
    "C16": dict(
        category="model_checking",
        technique="TLA+ Compose spec (Splits, module-level expectations, option correspondence; LawSplit asserted by "
                  "TLC) + replay of splits into wrap / wrap_submodule / MatlabWrapper.wrap and of option sets into both "
                  "scripts; (executed) split 'call' profile modules compiled, linked into one extension module, imported and driven "
                  "through the PyCall plan of the whole module",
        text="TLC distributes the top-level declarations of each derived module over 2-4 files (every single cut, "
             "first+last, all cuts) and emits the expected initialiser declarations / invocations / definitions; the "
             "harness writes the parts with varying final characters (no newline, trailing // or /* */ comment) and "
             "checks main and additional units, MATLAB list-vs-single-file equality, and script-vs-API byte equality "
             "for --top_module_namespaces / --ignore (absent, empty, one) / --is_submodule / --use-boost-serialization.",
        note="Executed half: main + one additional file, cut at up to three declaration boundaries per module; the linked module "
             "must expose and forward exactly as the single-file module does.",
        design="6/C16, 12.8"),
    "C17": dict(
        category="model_checking",
        technique="TLA+ DocString spec: lookup machine with overload counter + Embed/Decode of the C++ literal, "
                  "model-checked (all lookup sequences over a small Doxygen model; all texts of length <= 3 over a "
                  "hostile alphabet); replay of generated Doxygen situations into wrap_file; g++ as decoder",
        text="TLC proves on the model that the literal rule round-trips every text (and that the former repr-based rule "
             "failed exactly on the analysed classes). Binding: random Doxygen situations are materialised as XML "
             "trees, the interface is wrapped twice on one wrapper, every binding's literal must equal Embed(text of the "
             "member the lookup machine selects) as computed by TLC; the code must be identical without XML apart from "
             "the literals; sampled literals are compiled and the bytes the program holds must be the UTF-8 of the "
             "text (this also binds DocString!Decode to the compiler).",
        note="Docstring formatting (brief + detailed + parameters) is not judged: documentation texts are single brief "
             "paragraphs. Texts are restricted to valid XML characters.",
        design="6/C17"),
    "C14": dict(
        category="model_checking",
        technique="TLA+ WrapperObject (histories) and Build (processes sharing a build directory) model-checked; replay "
                  "of all histories of <= 3 WrapFile steps; strace traces of both scripts turned into Build programs "
                  "whose interleavings TLC explores; run matrix",
        text="(H) every history of <= 3 wrap_file calls over alphabets of feature-bearing files on one PybindWrapper "
             "(serialization on, Doxygen XML attached) must give what a fresh wrapper gives; (R) both scripts under "
             "PYTHONHASHSEED x LC_ALL x cwd and the in-process API give identical trees; (T) strace: only declared "
             "outputs are created/written, nothing unlinked/renamed/chmod-ed, no undeclared file of the build tree is "
             "read; (S) the recorded per-process file-system steps are loaded into Build.tla and TLC checks SameAsSolo "
             "and OnlyDeclared over all interleavings; the same six processes are really run in parallel and compared "
             "with solo runs.",
        note="MatlabWrapper objects are single-use by construction (no MATLAB histories). The interleaving model keeps "
             "at most 3 files and 2 writes per file of each traced process. Locale variation is limited to the locales "
             "installed (C, C.UTF-8, POSIX).",
        design="6/C14"),
    "C19": dict(
        category="other",
        technique="TLA+ ParseCost step-counting model (memoised vs plain Or-backtracking) fixing the envelopes; measured "
                  "rule-evaluation counts of the real parser on TLC-rendered scaled families judged by TLC "
                  "(ParseCostTrace)",
        text="Not time but the number of rule evaluations (calls of pyparsing's uncached parse routine) is measured on "
             "four families (namespace depth, template-argument depth, both, file size; intact and truncated members) "
             "and must stay inside the polynomial envelope of the cost model: W(2d) <= 8 W(d), no doubling per level, "
             "per-(rule, position, mode) re-evaluations <= 8 + 4d. An evaluation budget stops exponential runs.",
        note="A performance property is outside what TLA+ decides well: what is decided is the growth of the step "
             "count, i.e. the memoisation mechanism the property names. A slowdown with unchanged evaluation counts "
             "is not detected. CPU seconds are recorded, never judged.",
        design="6/C19"),
    "C05": dict(
        category="model_checking",
        technique="TLA+ model of the id allocation / dispatch protocol (MexIds.tla) model-checked for every sequence of "
                  "class shapes in the bound; TLC trace validation (MexTrace!IdTables + per-site routine identity) of the "
                  "scanned .m files and MEX source",
        text="Design level: TLC explores MexIds (unnamed slot and -1/+1 shuffle for virtual classes, the skip logic of "
             "the second pass) for all sequences of <= 2 (quick) / 3 (thorough) classes x {virtual, ctors, methods, "
             "properties, statics, deserialize, functions} and checks Consistent. Code level: for TLC-derived modules "
             "and fixtures x (ignore, serialization) every `<module>_wrapper(<id>` call site of every .m file, every "
             "`case` and every routine is scanned; TLC checks ids contiguous from 0, one site / one case / one routine "
             "each, and that the case reached from a site runs the routine of the same class, role, member and overload.",
        note="The numbering itself is not predicted (the property is order-free). Trusted: scanners proj_m / "
             "proj_mexcpp (self-test tools/selftest_scanners.py).",
        design="6/C05"),
    "C06": dict(
        category="model_checking",
        technique="TLA+ Mex.tla (Arities, guards, unwrap modes, call parameters with defaults, return wrapping) "
                  "evaluated by TLC on each observed module and compared with scanned guards and routine bodies; (executed) "
                  "session plans of spec/PyCall.tla run on generated gateways compiled with the real matlab.h against the MEX "
                  "mock and a rendered instrumented library, MATLAB side emulated from the scanned .m files",
        text="For every constructor, method, static method and free function of TLC-derived modules (signature "
             "universe: <= 2-3 arguments x default masks x passing modes x return shapes, templated or not) TLC "
             "derives the k+1 overloads and for each the MATLAB guard (count, isa type, size tests), the expected "
             "checkArguments count, the unwrap statement of every argument (index, mode, type, pointer name), the call "
             "expression with the omitted defaults' text, and the return wrapping; the scanned .m / .cpp must agree.",
        note="The type-name formatting tables of the generator are part of the static specification (transcribed) - which is "
             "why the executed half exists: every callable of 'mexcall' modules is called at every arity n..n-k and the library "
             "must log the declared entity with the values in order and the declared defaults.  It found two defects that "
             "were fixed and five recorded findings (golden-pinned or not small).",
        design="6/C06, 12.7"),
    "C10": dict(
        category="model_checking",
        technique="TLA+ Mex.tla (Toolbox files, classdef structure, Preamble) evaluated by TLC and compared with the "
                  "scanned output directory",
        text="File set equality (one classdef per non-ignored class instantiation, one function file per free-function "
             "name, one enumeration per enum, class-scoped enums in +Class packages, exactly one MEX source), classdef "
             "frame (base or handle, pointer property, constructor frame, delete, display, one method / static per "
             "distinct name, get/set per property, serialization methods), enumerators numbered 0..n-1, collectors / "
             "delete loops / RTTI entries / typedefs of the preamble; the generator must not raise on an instantiable "
             "module.",
        note="Modules that declare the same name twice in a scope, or use an Eigen type as base class, are not judged.",
        design="6/C10"),
    "C18": dict(
        category="model_checking",
        technique="TLA+ MxConvert (arrays over opaque element tokens: Wrap/Unwrap, column-major maps, error table; handle "
                  "protocol as a machine) model-checked; every model case and handle behaviour executed by a C++ driver "
                  "against the real matlab.h; boundary / random concrete values through wrap-then-unwrap",
        text="TLC checks RoundTrip and ErrorTable for every type x shape <= 3x3 (incl. 0xn, mx0, 0x0) x source class and "
             "explores every wrap/unwrap/release/drop sequence of <= 5 steps over two objects (KeptAlive). The driver, "
             "compiled from /repo/matlab.h with a mock MEX API and stand-in Vector/Matrix, executes all 1232 unwrap "
             "cases, all wrap cases and all handle behaviours and must report the model's outcomes, shapes, element "
             "positions, object identity and use counts; ~1600 (quick) concrete values incl. INT_MIN, SIZE_MAX, "
             "2^53+1, denormals, infinities, NaN payloads, all 256 char values come back bit for bit.",
        note="Values are opaque tokens in the model: fidelity over full numeric ranges is sampled, not enumerated (the "
             "weakest fit of the technique among the claimed properties). Trusted: the MEX mock. Strings: ASCII, no NUL.",
        design="6/C18"),
    "C11": dict(
        category="model_checking",
        technique="TLA+ MexSession (objects, MATLAB handles, per-level collector entries, exit function; ownership "
                  "invariants) explored by TLC (random sessions + exhaustive short sessions); every session replayed "
                  "step by step into the compiled real gateway (plain and AddressSanitizer builds)",
        text="The generated <module>_wrapper.cpp of a session interface (3-level virtual chain, unrelated class, "
             "namespaced class, objects by value/reference/shared/raw pointer, returned objects, properties, statics, "
             "free functions, defaults, pairs) is compiled with the real matlab.h against a mock MEX API and an "
             "instrumented library; the MATLAB side is emulated from the scanned .m files. After every step of every TLC "
             "session the gateway's result, the logged C++ call (entity + argument values incl. omitted defaults), "
             "object identity of returned handles, live objects per class and collector sizes must equal the model's.",
        note="One gateway (hand-written interface + library), MATLAB emulated. The Unload-then-Delete hazard is a known "
             "finding (TLC counterexample + ASan confirmation). Returned objects always get the static MATLAB class "
             "(the generator passes isVirtual=false), which the model transcribes.",
        design="6/C11"),
    "C09": dict(
        category="model_checking",
        technique="static clauses on the scanned unit (PyBind machine + token checks) and g++ -fsyntax-only of the "
                  "generated unit against a library header rendered from the tree the TLA+ derivation machine emitted "
                  "('exec' profile)",
        text="Static: balanced constructs, no template parameter or `This` left as an unqualified identifier, variables "
             "defined once, lambda arity = keyword arguments (C04 record). Executed: for random derivations of the exec "
             "profile (library types with nested typedefs, templates, smart/raw pointers, literal defaults, operators, "
             "enums, inheritance, member-level templates, typedef instantiations, namespaces) the unit must compile with "
             "the repository's pybind11 headers against the rendered declarations; the header alone is compiled first "
             "as a control.",
        note="One canonical conforming library per interface (not 'any'). Syntax-only: no linking / import. The exec "
             "profile excludes constructs for which no library can be rendered mechanically (free-form default "
             "expressions, includes, forward declarations, numeric template arguments).",
        design="6/C09"),
}

NOT_YET = "not yet built in this session; planned per DESIGN.md section 6"


def main():
    checks = []
    for pid in ALL:
        if pid not in CHECKS:
            continue
        c = CHECKS[pid]
        checks.append({
            "property_id": pid,
            "quick_cmd": "./check %s --tier quick" % pid,
            "thorough_cmd": "./check %s --tier thorough" % pid,
            "evidence_file": "evidence/%s.json" % pid,
            "replay_cmd_template": "./check %s --replay {path}" % pid,
            "engine": "tlc",
            "level_claimed": {"category": c["category"], "text": c["text"], "design_ref": c["design"]},
            "level_note": c["note"],
            "technique": c["technique"],
        })
    man = {
        "version": 1,
        "setup_cmd": "./setup.sh",
        "hooks": {"guard": "GTWRAP_VERIF", "enable": "no hooks are needed: every observed state is reachable from "
                  "public results (see DESIGN.md 4.3); checks import gtwrap from $VERIF_REPO (default /repo)",
                  "baseline_off_cmd": "cd /repo && /venv/bin/python -m pytest -q -p no:cacheprovider tests",
                  "source_commits": [], "add_only": True},
        "engines": [{"name": "tlc", "path": "/opt/veriftools/tla/tla2tools.jar",
                     "serves_properties": sorted(CHECKS), "kind_free_text": "TLC 1.8 model checker / simulator / trace validator over spec/*.tla"}],
        "checks": checks,
        "not_applicable": [{"property_id": p, "reason": NA.get(p, NOT_YET)} for p in ALL if p not in CHECKS],
        "notes": "See DESIGN.md. known_findings.json lists genuine defects recorded or fixed.",
    }
    with open(os.path.join(VERIF, "MANIFEST.json"), "w") as f:
        json.dump(man, f, indent=1)


NA = {}

if __name__ == "__main__":
    main()
