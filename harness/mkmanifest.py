"""Regenerates MANIFEST.json from the table below (keeps it valid at all times)."""
import json
import os

VERIF = os.path.dirname(os.path.dirname(os.path.abspath(__file__)))
ALL = ["C%02d" % i for i in range(1, 20)]

CHECKS = {
    "C01": dict(
        category="model_checking",
        technique="TLA+ derivation machine (TLC simulate + exhaustive universes) replayed into Module.parseString; "
                  "TLC trace validation (Explains) of fixture parses",
        text="TLC explores spec/IfaceDerive.tla (random walks and four exhaustive universes: type expressions x "
             "positions, signatures, class shapes, namespace nestings) with the machine's own invariants checked in every "
             "state; each terminal state (tokens + the tree the spec says they mean) is replayed into the real parser and "
             "the projected result must equal the spec's tree. Fixtures go the other way: TLC decides whether the "
             "observed tree explains every token.",
        note="Trusted: TLC, the layout writer (tokens->text), the projection of parser objects to records. Bounded by the "
             "identifier/type pools of the spec and by type nesting depth (exhaustive to depth 1-2, deeper by simulation).",
        design="6/C01"),
}

NOT_YET = "not yet built in this session; planned per DESIGN.md section 6"


def main():
    checks = []
    for pid in ALL:
        if pid not in CHECKS:
            continue
        c = CHECKS[pid]
        checks.append({
            "property_id": pid,
            "quick_cmd": "./check %s --tier quick" % pid,
            "thorough_cmd": "./check %s --tier thorough" % pid,
            "evidence_file": "evidence/%s.json" % pid,
            "replay_cmd_template": "./check %s --replay {path}" % pid,
            "engine": "tlc",
            "level_claimed": {"category": c["category"], "text": c["text"], "design_ref": c["design"]},
            "level_note": c["note"],
            "technique": c["technique"],
        })
    man = {
        "version": 1,
        "setup_cmd": "./setup.sh",
        "hooks": {"guard": "GTWRAP_VERIF", "enable": "no hooks are needed: every observed state is reachable from "
                  "public results (see DESIGN.md 4.3); checks import gtwrap from $VERIF_REPO (default /repo)",
                  "baseline_off_cmd": "cd /repo && /venv/bin/python -m pytest -q -p no:cacheprovider tests",
                  "source_commits": [], "add_only": True},
        "engines": [{"name": "tlc", "path": "/opt/veriftools/tla/tla2tools.jar",
                     "serves_properties": sorted(CHECKS), "kind_free_text": "TLC 1.8 model checker / simulator / trace validator over spec/*.tla"}],
        "checks": checks,
        "not_applicable": [{"property_id": p, "reason": NA.get(p, NOT_YET)} for p in ALL if p not in CHECKS],
        "notes": "See DESIGN.md. known_findings.json lists genuine defects recorded or fixed.",
    }
    with open(os.path.join(VERIF, "MANIFEST.json"), "w") as f:
        json.dump(man, f, indent=1)


NA = {}

if __name__ == "__main__":
    main()
