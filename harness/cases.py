"""Get behaviours out of the derivation machine (spec/IfaceDerive.tla) via TLC."""
import json

import tlc

SIM_CFG = """SPECIFICATION Spec
CONSTANTS
  NsChoices <- SimNsChoices
  ClassChoices <- SimClassChoices
  MemberChoices <- SimMemberChoices
  LeafChoices <- SimLeafChoices
  Target = {target}
  MinDecls = {target}
  MaxNsDepth = {nsdepth}
  MaxMembers = {members}
  Profile = "{profile}"
INVARIANT InvRender
INVARIANT InvCount
INVARIANT InvShape
INVARIANT InvClosed
CHECK_DEADLOCK FALSE
"""

EXH_CFG = """SPECIFICATION Spec
CONSTANTS
  NsChoices <- ExhNsChoices
  ClassChoices <- ExhClassChoices
  MemberChoices <- ExhMemberChoices
  LeafChoices <- ExhLeafChoices
  Universe = "{universe}"
  TypeDepth0 = {typedepth}
  MaxArgs = {maxargs}
  RichArgs = {rich}
  MaxItems = {maxitems}
  Target = {target}
  MinDecls = 1
  MaxNsDepth = 3
  MaxMembers = {members}
INVARIANT InvRender
INVARIANT InvCount
INVARIANT InvShape
INVARIANT InvClosed
CHECK_DEADLOCK FALSE
"""


def _cases(res, origin):
    out = []
    for i, t in enumerate(res.by_tag("CASE")):
        c = json.loads(t[1])
        c["origin"] = "%s#%d" % (origin, i)
        out.append(c)
    return out


def simulate(n, seed, target=12, nsdepth=3, members=6, profile="parse", module="IfaceSim", timeout=900):
    """n random derivations.  Returns (cases, TLCResult)."""
    cfg = SIM_CFG.format(target=target, nsdepth=nsdepth, members=members, profile=profile)
    res = tlc.run(module, cfg_text=cfg, simulate=n, depth=10 * target + 20, seed=seed, workers=1, timeout=timeout)
    return _cases(res, "sim(seed=%d,target=%d,profile=%s)" % (seed, target, profile)), res


def exhaustive(universe, typedepth=0, maxargs=2, target=2, members=1, timeout=1800, coverage=False, rich=False, maxitems=3):
    """All terminal states of a focused universe.  Returns (cases, TLCResult)."""
    cfg = EXH_CFG.format(universe=universe, typedepth=typedepth, maxargs=maxargs, target=target, members=members,
                         rich="TRUE" if rich else "FALSE", maxitems=maxitems)
    res = tlc.run("IfaceExh", cfg_text=cfg, workers=1, timeout=timeout, coverage=coverage)
    return _cases(res, "exh(%s,d=%d,a=%d,t=%d,m=%d)" % (universe, typedepth, maxargs, target, members)), res


def scenarios(family, timeout=600):
    """a directed family of spec/Scenarios.tla.  Returns (cases, TLCResult)."""
    res = tlc.run("Scenarios", cfg_text="SPECIFICATION Spec\nCONSTANTS\n  Family = \"%s\"\nCHECK_DEADLOCK FALSE\n" % family,
                  workers=1, timeout=timeout)
    return _cases(res, "scenario(%s)" % family), res
