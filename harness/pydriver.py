"""Executes a session plan (spec/PyCall.tla) on a built pybind11 module in a fresh process and prints, per step,
what happened: exception name, the library's call log, and a description of the result.
usage: pydriver.py <directory holding the extension module> <module name> <plan.json>"""
import importlib
import json
import operator
import sys

BINOPS = {"+": operator.add, "-": operator.sub, "*": operator.mul, "/": operator.truediv, "%": operator.mod, "^": operator.xor,
          "&": operator.and_, "|": operator.or_, "+=": operator.iadd, "-=": operator.isub, "*=": operator.imul,
          "/=": operator.itruediv, "%=": operator.imod, "^=": operator.ixor, "&=": operator.iand, "|=": operator.ior,
          "<<": operator.lshift, "<<=": operator.ilshift, ">>": operator.rshift, ">>=": operator.irshift, "==": operator.eq,
          "!=": operator.ne, "<": operator.lt, ">": operator.gt, "<=": operator.le, ">=": operator.ge}

workdir, module, planfile = sys.argv[1:4]
sys.path.insert(0, workdir)
mod = importlib.import_module(module)
with open(planfile) as f:
    plan = json.load(f)
objs = {}


def resolve(path):
    o = mod
    for p in path:
        o = getattr(o, p)
    return o


def val(s):
    return objs[s[1:]] if s.startswith("$") else eval(s, {"__builtins__": {}})


def describe(r):
    if r is None:
        return {"kind": "none", "repr": "None"}
    if isinstance(r, bool):
        return {"kind": "bool", "repr": repr(r)}
    if isinstance(r, int) and type(r) is int:
        return {"kind": "int", "repr": repr(r)}
    if isinstance(r, float):
        return {"kind": "float", "repr": repr(r)}
    if isinstance(r, str):
        return {"kind": "str", "repr": repr(r)}
    if isinstance(r, tuple):
        return {"kind": "tuple", "repr": "tuple%d" % len(r)}
    t = type(r)
    m = t.__module__
    m = m[len(module):].lstrip(".") if m == module or m.startswith(module + ".") else m
    return {"kind": "obj:" + ".".join([x for x in (m, t.__qualname__) if x]), "repr": ""}


out = []
mod._verif_take_log()
for st in plan:
    ob = {"exc": "", "msg": "", "log": [], "ret": {"kind": "", "repr": ""}}
    try:
        pos = [] if st["op"] == "expose" else [val(x) for x in st["pos"]]
        kw = {k["name"]: val(k["value"]) for k in st["kw"]}
        op = st["op"]
        if op == "new":
            r = resolve(st["path"])(*pos, **kw)
            objs[st["var"]] = r
        elif op == "method":
            r = getattr(objs[st["on"]], st["name"])(*pos, **kw)
        elif op in ("static", "func"):
            r = getattr(resolve(st["path"]), st["name"])(*pos, **kw)
        elif op == "unop":
            r = {"-": operator.neg, "+": operator.pos}[st["name"]](objs[st["on"]])
        elif op == "binop":
            r = BINOPS[st["name"]](objs[st["on"]], pos[0])
        elif op == "expose":
            r = None
            ob["exposed"] = sorted(n for n in dir(resolve(st["path"])) if not n.startswith("_"))
        elif op == "getprop":
            r = getattr(objs[st["on"]], st["name"])
        elif op == "setprop":
            setattr(objs[st["on"]], st["name"], pos[0])
            r = None
        elif op == "enum":
            r = int(getattr(resolve(st["path"]), st["name"]))
        elif op == "attr":
            r = getattr(resolve(st["path"]), st["name"])
        elif op == "subclass":
            r = issubclass(resolve(st["path"]), resolve(st["name"].split(".")))
        elif op == "repr":
            r = repr(objs[st["on"]])
        else:
            raise RuntimeError("unknown op " + op)
        ob["ret"] = describe(r)
    except Exception as e:  # noqa: BLE001 - reported to the harness
        ob["exc"] = type(e).__name__
        ob["msg"] = str(e)[:300]
    ob["log"] = list(mod._verif_take_log())
    out.append(ob)
json.dump(out, sys.stdout)
