#!/usr/bin/env python3
"""tools/record_seed.py <source dir> <id> <breaks property> <detected-by check ids, comma separated> [history note]
copies a seeded change (patch.diff, demo.py, meta.json) that was confirmed with tools/try_seed.sh into /verif/seeded/<id>/."""
import json
import os
import shutil
import sys

src, sid, prop, det = sys.argv[1:5]
note = sys.argv[5] if len(sys.argv) > 5 else ""
dst = os.path.join(os.path.dirname(os.path.dirname(os.path.abspath(__file__))), "seeded", sid)
os.makedirs(dst, exist_ok=True)
for f in ("patch.diff", "demo.py"):
    if os.path.exists(os.path.join(src, f)):
        shutil.copy(os.path.join(src, f), os.path.join(dst, f))
meta = json.load(open(os.path.join(src, "meta.json")))
meta["breaks_property"] = prop
meta["detected_by_quick_checks"] = det.split(",")
meta["verified"] = ("tools/try_seed.sh /verif/seeded/%s %s : repository tests 94 passed with the change, demo.py fails with it "
                    "and passes without, listed checks exit 1 with it and 0 without" % (sid, " ".join(det.split(","))))
if note:
    meta["history"] = note
json.dump(meta, open(os.path.join(dst, "meta.json"), "w"), indent=1)
print("recorded", dst)
