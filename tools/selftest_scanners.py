#!/venv/bin/python
"""Self test for proj_m.scan_m and proj_mexcpp.scan_cpp.

Run with:  PYTHONPATH=/repo /venv/bin/python /tmp/scan_out/selftest_scanners.py

1. Generates the MATLAB wrapper output of every fixture in
   /repo/tests/fixtures/*.i into a temporary directory (with and without
   boost serialization; part1.i + part2.i are wrapped together as the repo's
   own test does), plus one extra interface file written by this script that
   exercises shapes the fixtures do not contain (overloaded static methods,
   default arguments with awkward string literals, ...).
2. Scans every produced file.  No ScanError is allowed.
3. Checks the *completeness* of the scan results with counts that are obtained
   independently of the scanners (plain regex counts on the raw text):

   .m files
     (a)  the ids in ``_wrapper\\((\\d+)`` == the ids reported by the scan
     (a2) number of ``function `` definitions, ``isa(`` tests, enumerators
   .cpp files
     (b)  number of ``case N:`` lines == len(cases)
     (c)  number of routine headers == len(routines) + 1 (mexFunction),
          and the names agree, in order
     (d)  unwrap occurrences per routine == self_unwrap + unwraps
          (+1 for the string in deserialize routines)
     (e)  ``out[k] =`` assignments per routine == outs + base pointer +
          constructor/upcast self pointer
     (f)  counts of #include / BOOST_CLASS_EXPORT_GUID / collector typedefs /
          delete loops / types.insert lines

4. Does the same for the golden files in /repo/tests/expected/matlab.

Exit status 0 only if everything holds.
"""

import glob
import json
import os
import re
import sys
import tempfile

HERE = os.path.dirname(os.path.abspath(__file__))
sys.path.insert(0, HERE)
sys.path.insert(0, "/repo")

import proj_m  # noqa: E402
import proj_mexcpp  # noqa: E402

FIXTURES = "/repo/tests/fixtures"
GOLDEN = "/repo/tests/expected/matlab"

EXTRA_INTERFACE = r'''
#include <extra/Thing.h>

namespace extra {

enum Mode { Slow, Fast };

class Thing {
  Thing();
  Thing(double a, int b = 3, string label = "a,b)(");

  static double make(double x);
  static double make(double x, string s = "q(,");
  static void reset();
  static extra::Thing* clone(const extra::Thing& other);

  void say(string text = "{[(", bool loud = false) const;
  pair<extra::Thing*, Vector> both(const Point3& p, extra::Mode mode) const;
  extra::Mode mode() const;
  Point3* where() const;

  void serialize() const;

  Vector weights;
  extra::Mode current;
};

virtual class Base {
  Base();
};

virtual class Derived : extra::Base {
  Derived(const extra::Thing& t);
  void touch(extra::Thing* t, Matrix m) const;
};

double free_fun(double a, string s = "x,y");
pair<Vector, extra::Thing> free_pair(const extra::Thing& t);

}
'''

# ---------------------------------------------------------------------------
# Failure bookkeeping
# ---------------------------------------------------------------------------

FAILURES = []


def check(condition, where, message):
    if not condition:
        FAILURES.append("%s: %s" % (where, message))
    return condition


def assert_json_values(value, where):
    """Only str/int/bool/list/dict may occur (no None, no float)."""
    if isinstance(value, dict):
        for key, item in value.items():
            check(isinstance(key, str), where, "non-string key %r" % (key, ))
            assert_json_values(item, where)
    elif isinstance(value, list):
        for item in value:
            assert_json_values(item, where)
    else:
        check(isinstance(value, (str, int, bool)), where,
              "value %r is not str/int/bool" % (value, ))


# ---------------------------------------------------------------------------
# Generation
# ---------------------------------------------------------------------------


def generation_jobs(tmp):
    """(module name, [interface files]) for every fixture."""
    jobs = []
    for path in sorted(glob.glob(os.path.join(FIXTURES, "*.i"))):
        base = os.path.basename(path)[:-2]
        if base in ("part1", "part2"):
            continue
        jobs.append((base, [path]))
    jobs.append(("multiple_files", [os.path.join(FIXTURES, "part1.i"),
                                    os.path.join(FIXTURES, "part2.i")]))
    extra = os.path.join(tmp, "extra_shapes.i")
    with open(extra, "w") as handle:
        handle.write(EXTRA_INTERFACE)
    jobs.append(("extra_shapes", [extra]))
    return jobs


def generate(module_name, files, outdir, boost):
    from gtwrap.matlab_wrapper import MatlabWrapper
    os.makedirs(outdir, exist_ok=True)
    wrapper = MatlabWrapper(module_name=module_name,
                            top_module_namespace=[''],
                            ignore_classes=[''],
                            use_boost_serialization=boost)
    wrapper.wrap(files, path=outdir)


# ---------------------------------------------------------------------------
# .m checks
# ---------------------------------------------------------------------------


def ids_of_m_scan(scan):
    """Every wrapper id the scan reports for a .m file."""
    if scan["kind"] == "enum":
        return []
    if scan["kind"] == "function":
        return [o["id"] for o in scan["overloads"]]
    ctor = scan["ctor"]
    ids = [ctor["collector_id"], scan["delete_id"]]
    if ctor["upcast_id"] != -1:
        ids.append(ctor["upcast_id"])
    ids += [o["id"] for o in ctor["overloads"]]
    for group in scan["methods"] + scan["statics"]:
        ids += [o["id"] for o in group["overloads"]]
    ids += [g["id"] for g in scan["getters"]]
    ids += [s["id"] for s in scan["setters"]]
    return ids


def all_checks_of_m_scan(scan):
    if scan["kind"] == "enum":
        return []
    if scan["kind"] == "function":
        groups = [scan]
    else:
        groups = [scan["ctor"]] + scan["methods"] + scan["statics"]
    return [c for g in groups for o in g["overloads"] for c in o["checks"]]


def check_m_file(where, relpath, text):
    try:
        scan = proj_m.scan_m(relpath, text)
    except proj_m.ScanError as error:
        check(False, where, "ScanError: %s" % error)
        return None
    assert_json_values(scan, where)
    json.dumps(scan)

    # (a) wrapper ids
    in_text = sorted(int(n) for n in re.findall(r"_wrapper\((\d+)", text))
    in_scan = sorted(ids_of_m_scan(scan))
    check(in_text == in_scan, where,
          "(a) wrapper ids in text %r != ids in scan %r" % (in_text, in_scan))
    check(len(set(in_scan)) == len(in_scan), where,
          "(a) duplicate wrapper ids %r" % in_scan)

    # (a2) other independent counts
    n_function = len(re.findall(r"^\s*function\s", text, re.M))
    n_isa = len(re.findall(r"\bisa\(", text))
    checks = all_checks_of_m_scan(scan)
    n_size = len(re.findall(r"\bsize\(", text))
    check(n_size == sum(len(c["extra"]) for c in checks), where,
          "(a2) size( count %d" % n_size)
    if scan["kind"] == "enum":
        n_enumerators = len(re.findall(r"^\s*\w+\(\d+\)\s*$", text, re.M))
        check(n_enumerators == len(scan["enumerators"]), where,
              "(a2) enumerator count")
        check(n_function == 0 and n_isa == 0, where, "(a2) enum has code")
    elif scan["kind"] == "function":
        check(n_function == 1, where, "(a2) function count %d" % n_function)
        check(n_isa == len(checks), where, "(a2) isa( count %d" % n_isa)
    else:
        expected = (2 + 2 * int(scan["has_display"]) + len(scan["methods"]) +
                    len(scan["getters"]) + len(scan["setters"]) +
                    len(scan["statics"]))
        check(n_function == expected, where,
              "(a2) function count %d != %d" % (n_function, expected))
        check(n_isa == 1 + len(checks), where, "(a2) isa( count %d" % n_isa)
        n_usage = len(re.findall(r" usage: ", text))
        n_overloads = sum(len(g["overloads"])
                          for g in scan["methods"] + scan["statics"])
        check(n_usage == n_overloads, where,
              "(a2) usage comment count %d != %d" % (n_usage, n_overloads))
    return scan


# ---------------------------------------------------------------------------
# .cpp checks
# ---------------------------------------------------------------------------

RE_HEADER = re.compile(r"^void (\w+)\(int nargout, mxArray \*out\[\], "
                       r"int nargin, const mxArray \*in\[\]\)", re.M)
RE_UNWRAP = re.compile(r"unwrap(_shared_ptr|_ptr|_enum)?\s*<")
RE_OUT_ASSIGN = re.compile(r"\bout\[\d+\]\s*=")


def check_cpp_file(where, text):
    try:
        scan = proj_mexcpp.scan_cpp(text)
    except proj_mexcpp.ScanError as error:
        check(False, where, "ScanError: %s" % error)
        return None
    assert_json_values(scan, where)
    json.dumps(scan)
    routines = scan["routines"]

    # (b) cases
    n_case = len(re.findall(r"^\s*case \d+:", text, re.M))
    check(n_case == len(scan["cases"]), where,
          "(b) %d case lines, %d cases scanned" % (n_case, len(scan["cases"])))

    # (c) routine headers
    headers = list(RE_HEADER.finditer(text))
    check(len(headers) == len(routines) + 1, where,
          "(c) %d headers, %d routines" % (len(headers), len(routines)))
    names = [h.group(1) for h in headers]
    check(names == [r["name"] for r in routines] + ["mexFunction"], where,
          "(c) routine names differ")

    # (d), (e) per routine, on independently cut segments of the text
    for i, routine in enumerate(routines):
        if i + 1 >= len(headers):
            break
        segment = text[headers[i].end():headers[i + 1].start()]
        rwhere = "%s:%s" % (where, routine["name"])
        check(routine["body"].strip() in segment, rwhere,
              "body is not a slice of the routine text")

        n_unwrap = len(RE_UNWRAP.findall(segment))
        accounted = (int(routine["self_unwrap"]["cpp"] != "") +
                     len(routine["unwraps"]) +
                     int(routine["kind"] == "deserialize"))
        check(n_unwrap == accounted, rwhere,
              "(d) %d unwraps in text, %d accounted for" %
              (n_unwrap, accounted))

        n_out = len(RE_OUT_ASSIGN.findall(segment))
        accounted = (len(routine["outs"]) +
                     int(routine["base_out_index"] != -1) +
                     int(routine["self_out_index"] != -1))
        check(n_out == accounted, rwhere,
              "(e) %d out[] assignments in text, %d accounted for" %
              (n_out, accounted))
        check((routine["self_out_index"] != -1) ==
              (routine["kind"] in ("constructor", "upcast")), rwhere,
              "(e) self pointer outside constructor/upcast")
    # whole file: the only other unwrap is `unwrap<int>(in[0])` in mexFunction
    total = sum(int(r["self_unwrap"]["cpp"] != "") + len(r["unwraps"]) +
                int(r["kind"] == "deserialize") for r in routines)
    check(len(RE_UNWRAP.findall(text)) == total + 1, where,
          "(d) unwrap total")

    # (f) preamble counts
    def count(pattern):
        return len(re.findall(pattern, text, re.M))

    check(count(r"^#include") == len(scan["includes"]), where, "(f) includes")
    check(count(r"^BOOST_CLASS_EXPORT_GUID") == len(scan["export_guids"]),
          where, "(f) export guids")
    check(count(r"^typedef std::set<") == len(scan["collectors"]), where,
          "(f) collectors")
    check(count(r"^static Collector_") == len(scan["collectors"]), where,
          "(f) collector statics")
    check(count(r"^typedef ") ==
          len(scan["collectors"]) + len(scan["typedefs"]), where,
          "(f) top level typedefs")
    check(count(r"^\s*\{ for\(") == len(scan["delete_loops"]), where,
          "(f) delete loops")
    check(count(r"^\s*types\.insert\(") == len(scan["rtti"]), where,
          "(f) rtti inserts")
    check(count(r"_RTTIRegister\(\)") == 2 and
          scan["rtti_module"] != "" and scan["mex_module"] != "", where,
          "(f) RTTIRegister")
    return scan


# ---------------------------------------------------------------------------
# Tree walking
# ---------------------------------------------------------------------------


def check_tree(label, root):
    """Scan every .m and *_wrapper.cpp file below ``root``."""
    stats = {"m": 0, "cpp": 0, "ids": 0, "routines": 0, "class": 0,
             "function": 0, "enum": 0}
    for dirpath, dirnames, filenames in os.walk(root):
        dirnames.sort()
        for filename in sorted(filenames):
            path = os.path.join(dirpath, filename)
            relpath = os.path.relpath(path, root).replace(os.sep, "/")
            where = "%s/%s" % (label, relpath)
            if filename.endswith(".m"):
                with open(path) as handle:
                    scan = check_m_file(where, relpath, handle.read())
                stats["m"] += 1
                if scan is not None:
                    stats[scan["kind"]] += 1
                    stats["ids"] += len(ids_of_m_scan(scan))
            elif filename.endswith("_wrapper.cpp"):
                with open(path) as handle:
                    scan = check_cpp_file(where, handle.read())
                stats["cpp"] += 1
                if scan is not None:
                    stats["routines"] += len(scan["routines"])
    return stats


def main():
    before = 0
    with tempfile.TemporaryDirectory(prefix="scan_selftest_") as tmp:
        for module_name, files in generation_jobs(tmp):
            for boost in (False, True):
                label = "%s[boost=%d]" % (module_name, int(boost))
                outdir = os.path.join(tmp, "%s_%d" % (module_name, int(boost)))
                try:
                    generate(module_name, files, outdir, boost)
                except Exception as error:  # generator failure, not ours
                    check(False, label, "generation failed: %r" % (error, ))
                    continue
                stats = check_tree(label, outdir)
                check(stats["cpp"] == 1, label, "expected exactly one cpp")
                status = "ok" if len(FAILURES) == before else "FAILED"
                before = len(FAILURES)
                print("%-28s %3d .m (%2d class %2d function %2d enum) "
                      "%4d ids  %4d routines  %s" %
                      (label, stats["m"], stats["class"], stats["function"],
                       stats["enum"], stats["ids"], stats["routines"],
                       status))

    stats = check_tree("golden", GOLDEN)
    status = "ok" if len(FAILURES) == before else "FAILED"
    print("%-28s %3d .m (%2d class %2d function %2d enum) %4d ids  "
          "%4d routines in %d cpp  %s" %
          ("golden", stats["m"], stats["class"], stats["function"],
           stats["enum"], stats["ids"], stats["routines"], stats["cpp"],
           status))

    if FAILURES:
        print("\n%d FAILURE(S):" % len(FAILURES))
        for failure in FAILURES:
            print("  " + failure)
        return 1
    print("\nall checks passed")
    return 0


if __name__ == "__main__":
    sys.exit(main())
