#!/bin/sh
# tools/try_seed.sh <seed dir with patch.diff [demo.py]> <check ids...>
# applies the seeded change to /repo, runs the repository tests, the demo and the given quick checks, reverts.
d=$1; shift
cd /repo || exit 2
git status --short | grep -q . && { echo "/repo not clean"; exit 2; }
git apply "$d/patch.diff" || { echo "patch does not apply"; exit 2; }
trap 'git -C /repo checkout -- . ; git -C /repo status --short' EXIT
echo "== repo tests"; /venv/bin/python -m pytest -q -p no:cacheprovider tests 2>&1 | tail -1
if [ -f "$d/demo.py" ]; then echo "== demo (expected to fail)"; (cd /repo && PYTHONPATH=/repo timeout 300 /venv/bin/python "$d/demo.py" >/dev/null 2>&1; echo "demo rc=$?"); fi
for c in "$@"; do echo "== check $c"; (cd /verif && timeout 1500 ./check $c --tier quick > /tmp/try_seed_$c.out 2>&1; rc=$?; grep VIOLATION /tmp/try_seed_$c.out | cut -c1-220 | head -4; grep "MACHINERY" /tmp/try_seed_$c.out | cut -c1-300 | head -2; echo "check rc=$rc violations=$(grep -c VIOLATION /tmp/try_seed_$c.out)"); done
