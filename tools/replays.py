#!/usr/bin/env python3
"""summarise out/replays/<pid>-*.json"""
import collections
import glob
import json
import sys
pid = sys.argv[1]
n = int(sys.argv[2]) if len(sys.argv) > 2 else 2
c = collections.Counter()
ex = collections.defaultdict(list)
for f in glob.glob('/verif/out/replays/%s-*.json' % pid):
    d = json.load(open(f))
    k = (d['clause'], d['class'])
    c[k] += 1
    ex[k].append(d['witness'])
for k, v in c.most_common():
    print(v, k)
    for w in ex[k][:n]:
        print("    opts:", w.get('opts'), "| where:", w.get('where'), "| detail:", str(w.get('detail', w.get('expected', '')))[:200])
        print("    text:", " ".join(str(w.get('text', '')).split())[:int(sys.argv[3]) if len(sys.argv) > 3 else 400])
