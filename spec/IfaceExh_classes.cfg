SPECIFICATION Spec
CONSTANTS
  NsChoices <- ExhNsChoices
  ClassChoices <- ExhClassChoices
  MemberChoices <- ExhMemberChoices
  LeafChoices <- ExhLeafChoices
  Universe = "classes"
  TypeDepth0 = 0
  RichArgs = FALSE
  MaxItems = 3
  MaxArgs = 0
  Target = 4
  MinDecls = 1
  MaxNsDepth = 3
  MaxMembers = 3
INVARIANT InvRender
INVARIANT InvCount
INVARIANT InvShape
INVARIANT InvClosed
CHECK_DEADLOCK FALSE
