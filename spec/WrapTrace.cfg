SPECIFICATION TraceSpec
CONSTANTS
  Outputs = {}
INVARIANT FailureLeavesNoTrace
INVARIANT WritesOnlyAfterGeneration
INVARIANT OnlyOutputs
INVARIANT DoneIsDeterministic
POSTCONDITION AllJudged
CHECK_DEADLOCK FALSE
