----------------------------- MODULE Scenarios -----------------------------
(***************************************************************************)
(* Directed families of interface files that the item bounds of the        *)
(* derivation universes (IfaceExh) do not reach, built directly as         *)
(* concrete syntax trees and handed to the harness in the same CASE format *)
(* as a finished derivation (tokens, tree, abstract tree).                 *)
(*                                                                         *)
(* Family "typedefs": two class templates Foo / Bar and two typedefs that  *)
(* share their NEW name, each of the four declarations placed in any of    *)
(* the scopes <<>>, a, a::b (81 placements x 2 orders).  What a typedef'd  *)
(* instantiation is must depend on its own target only.                    *)
(***************************************************************************)
EXTENDS Iface, TLC, Json
CONSTANT Family
VARIABLE done

Scopes == << <<>>, <<"a">>, <<"a", "b">> >>
VoidTy == Ty(<<"void">>, <<>>, FALSE, "", TRUE)
TTy    == Ty(<<"T">>, <<>>, FALSE, "", FALSE)
P3n    == TN(<<"gtsam", "Pose3">>, <<>>)
Dbln   == TN(<<"double">>, <<>>)
Foo == ClassN("Foo", <<TP("T", <<>>)>>, FALSE, FALSE, NoType, <<Method("get", <<>>, Ret1(TTy), <<>>, TRUE)>>)
Bar == ClassN("Bar", <<TP("T", <<>>)>>, FALSE, FALSE, NoType, <<Method("put", <<>>, Ret1(VoidTy), <<Arg(TTy, "x", FALSE, "")>>, FALSE)>>)
TdOf(name, scope, arg) == Typedef(TN(scope \o <<name>>, <<arg>>), "SameTd")

\* the module in which declaration k (1 Foo, 2 Bar, 3 typedef of Foo, 4 typedef of Bar) sits in scope Scopes[pl[k]]
DeclsAt(pl, s, rev) ==
  LET ds == << Foo, Bar, TdOf("Foo", Scopes[pl[1]], P3n), TdOf("Bar", Scopes[pl[2]], Dbln) >>
      here == SelectSeq(<<1, 2, 3, 4>>, LAMBDA k : pl[k] = s)
      ord == IF rev THEN [i \in 1..Len(here) |-> here[Len(here) + 1 - i]] ELSE here
  IN [i \in 1..Len(ord) |-> ds[ord[i]]]
TdModule(pl, rev) ==
  LET inner == DeclsAt(pl, 3, rev)
      mid == DeclsAt(pl, 2, rev) \o (IF inner # <<>> THEN << NsN("b", inner) >> ELSE <<>>)
  IN DeclsAt(pl, 1, rev) \o (IF mid # <<>> THEN << NsN("a", mid) >> ELSE <<>>)
\* (a template must be declared before it is typedef'd when both sit in one scope: reversed orders are for the typedefs' sake
\*  and are kept only when no typedef precedes its own template in the same scope)
TdModules == { TdModule(pl, rev) : pl \in {q \in [1..4 -> 1..3] : q[3] # q[4]}, rev \in BOOLEAN }   \* (one name per scope)

\* Family "serializable": three classes, one of them with a `serialize` member (the serialization option adds artefacts to
\* that class and only to it), in every order and in the scopes <<>> / a
IntTy == Ty(<<"int">>, <<>>, FALSE, "", TRUE)
SerX == ClassN("Pose", <<>>, FALSE, FALSE, NoType, <<Ctor("Pose", <<>>, <<>>), Method("serialize", <<>>, Ret1(VoidTy), <<>>, TRUE)>>)
PlainY == ClassN("Landmark", <<>>, FALSE, FALSE, NoType, <<Ctor("Landmark", <<>>, <<>>), Method("id", <<>>, Ret1(IntTy), <<>>, TRUE)>>)
PlainZ == ClassN("Track", <<>>, TRUE, FALSE, NoType, <<Ctor("Track", <<>>, <<Arg(IntTy, "n", FALSE, "")>>), Static("Make", <<>>, Ret1(VoidTy), <<>>)>>)
Perms3 == { p \in [1..3 -> 1..3] : \A i, j \in 1..3 : i # j => p[i] # p[j] }
SerModule(p, pl) ==
  LET ds == << SerX, PlainY, PlainZ >>
      top == SelectSeq([i \in 1..3 |-> p[i]], LAMBDA k : pl[k] = 1)
      ina == SelectSeq([i \in 1..3 |-> p[i]], LAMBDA k : pl[k] = 2)
  IN [i \in 1..Len(top) |-> ds[top[i]]] \o (IF ina # <<>> THEN << NsN("a", [i \in 1..Len(ina) |-> ds[ina[i]]]) >> ELSE <<>>)
SerModules == { SerModule(p, pl) : p \in Perms3, pl \in [1..3 -> 1..2] }

\* Family "members": one class whose members come in every order - const and non-const properties, a `serialize`
\* marker between ordinary methods, a static method (what one member is must not depend on its neighbours)
DblTy == Ty(<<"double">>, <<>>, FALSE, "", TRUE)
ConstInt == Ty(<<"int">>, <<>>, TRUE, "", TRUE)
Perms4 == { p \in [1..4 -> 1..4] : \A i, j \in 1..4 : i # j => p[i] # p[j] }
PropMembers == << Prop(ConstInt, "fixed", FALSE, ""), Prop(IntTy, "count", FALSE, ""), Prop(Ty(<<"double">>, <<>>, TRUE, "", TRUE), "scale", FALSE, ""), Prop(DblTy, "gain", FALSE, "") >>
MethMembers == << Method("before", <<>>, Ret1(IntTy), <<>>, TRUE), Method("serialize", <<>>, Ret1(VoidTy), <<>>, TRUE),
                  Method("after", <<>>, Ret1(VoidTy), <<Arg(IntTy, "n", FALSE, "")>>, FALSE), Static("Make", <<>>, Ret1(IntTy), <<>>) >>
MemberModules ==
  { << ClassN("Holder", <<>>, FALSE, FALSE, NoType, <<Ctor("Holder", <<>>, <<>>)>> \o [i \in 1..4 |-> PropMembers[p[i]]]),
       ClassN("Worker", <<>>, FALSE, FALSE, NoType, <<Ctor("Worker", <<>>, <<>>)>> \o [i \in 1..4 |-> MethMembers[p[i]]]) >> : p \in Perms4 }

\* Family "enums": an enum-typed parameter in every position of a three-parameter list (constructor, method, static
\* method, function), an enum result and an enum property; the enum is global or sits in the namespace of the class,
\* declared in the same block as the class or in an EARLIER block of the re-opened namespace
EnumModules ==
  { LET en == EnumN("Shade", "", <<"Dark", "Mid", "Bright">>)
        ety == Ty((IF inNs THEN <<"geo">> ELSE <<>>) \o <<"Shade">>, <<>>, FALSE, "", FALSE)
        others == << Arg(DblTy, "level", FALSE, ""), Arg(IntTy, "n", FALSE, "") >>
        args == SubSeq(others, 1, pos - 1) \o << Arg(ety, "shade", FALSE, "") >> \o SubSeq(others, pos, 2)
        lamp == ClassN("Lamp", <<>>, FALSE, FALSE, NoType,
                       << Ctor("Lamp", <<>>, args), Method("set", <<>>, Ret1(VoidTy), args, FALSE), Method("get", <<>>, Ret1(ety), <<>>, TRUE),
                          Static("Make", <<>>, Ret1(IntTy), args), Prop(ety, "tone", FALSE, "") >>)
        fn == Func("blend", <<>>, Ret1(ety), args)
    IN IF ~inNs THEN << en, NsN("geo", << lamp, fn >>) >>
       ELSE IF reopen = "enum-in-earlier-block" THEN << NsN("geo", << en >>), NsN("geo", << lamp, fn >>) >>
       ELSE IF reopen = "enum-in-later-block"        \* (the earlier block has an enum and a class of its own)
       THEN << NsN("geo", << EnumN("Unit", "", <<"Meter", "Foot">>),
                             ClassN("Ruler", <<>>, FALSE, FALSE, NoType,
                                    << Ctor("Ruler", <<>>, << Arg(Ty(<<"geo", "Unit">>, <<>>, FALSE, "", FALSE), "unit", FALSE, "") >>) >>) >>),
               NsN("geo", << en, lamp, fn >>) >>
       ELSE << NsN("geo", << en, lamp, fn >>) >>
    : pos \in 1..3, inNs \in BOOLEAN, reopen \in {"no", "enum-in-earlier-block", "enum-in-later-block"} }

\* Family "special": names and shapes the generators treat specially only in a narrower case than one might think -
\* a free function named like an IPython display hook (only METHODS are renamed _repr_*_), a class whose name merely ends
\* in `Values` with an insert(size_t, X) (only gtsam::Values gets insert_<name>), a derived class that redeclares a method of
\* its base with the same signature (it still gets its own binding), a base / derived pair for the ignore list
SzTy == Ty(<<"size_t">>, <<>>, FALSE, "", TRUE)
SpecialModules ==
  { << Func(hook, <<>>, Ret1(IntTy), <<Arg(IntTy, "x", FALSE, "")>>),
       NsN("store", << ClassN("MyValues", <<>>, FALSE, FALSE, NoType,
                              << Ctor("MyValues", <<>>, <<>>), Method("insert", <<>>, Ret1(VoidTy), <<Arg(SzTy, "j", FALSE, ""), Arg(DblTy, "vector", FALSE, "")>>, FALSE) >>) >>),
       ClassN("Base", <<>>, virt, FALSE, NoType,
              << Ctor("Base", <<>>, <<>>), Method("f", <<>>, Ret1(VoidTy), <<Arg(IntTy, "x", FALSE, "")>>, FALSE), Method("g", <<>>, Ret1(IntTy), <<>>, TRUE) >>),
       ClassN("Derived", <<>>, virt, TRUE, TN(<<"Base">>, <<>>),
              << Ctor("Derived", <<>>, <<>>), Method("f", <<>>, Ret1(VoidTy), <<Arg(IntTy, "x", FALSE, "")>>, FALSE), Method("h", <<>>, Ret1(DblTy), <<>>, TRUE) >>) >>
    : hook \in {"html", "svg", "latex"}, virt \in BOOLEAN }

Cases == CASE Family = "typedefs" -> TdModules [] Family = "serializable" -> SerModules [] Family = "members" -> MemberModules
           [] Family = "enums" -> EnumModules [] Family = "special" -> SpecialModules
Init == done = FALSE
Next == /\ ~done /\ done' = TRUE
        /\ \A cst \in Cases : PrintT(<<"CASE", ToJson([toks |-> RenderItems(cst), cst |-> cst, tree |-> AbsItems(cst)])>>)
Spec == Init /\ [][Next]_done
=============================================================================
