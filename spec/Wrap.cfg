SPECIFICATION Spec
CONSTANTS
  Outputs = {"mod.cpp", "A.m", "+pkg/B.m"}
INVARIANT FailureLeavesNoTrace
INVARIANT WritesOnlyAfterGeneration
INVARIANT OnlyOutputs
INVARIANT DoneIsDeterministic
PROPERTY Terminates
PROPERTY Outcome
PROPERTY Completes
CHECK_DEADLOCK FALSE
