SPECIFICATION HazardSpec
CONSTANTS
  MaxSteps = 3
  MaxObjs = 1
  Exhaustive = TRUE
INVARIANT NoDoubleFree
CHECK_DEADLOCK FALSE
