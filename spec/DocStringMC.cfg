INIT Init
NEXT Next
CONSTANTS
  MaxLen = 3
  MaxCalls = 4
INVARIANT InvDocIsCandidate
INVARIANT InvOverloadsInOrder
INVARIANT InvFold
CHECK_DEADLOCK FALSE
