------------------------------- MODULE Layout -------------------------------
(***************************************************************************)
(* C12: layout is a stuttering step.  The derivation machine is extended   *)
(* by the trivia (whitespace / comments) placed in each gap between two    *)
(* tokens, before the first and after the last.  Relayout changes trivia   *)
(* only; what the parser and the generators must produce is a function of  *)
(* (toks, stack) alone, so every Relayout step must leave every observable *)
(* unchanged.  The harness replays Relayout steps (one gap at a time over  *)
(* every gap, and all gaps at once) into the implementation and compares   *)
(* the observations before and after.                                      *)
(***************************************************************************)
EXTENDS IfaceExh

CONSTANTS Trivia        \* trivia identifiers; "" is the empty trivia
VARIABLE gaps           \* [0..Len(toks) -> Trivia] once the derivation is closed

lvars == <<stack, toks, mode, cnt, gaps>>

\* an empty gap is only allowed where the neighbouring tokens do not fuse; the fusing test is lexical and is
\* supplied by the harness for concrete token strings, the spec only needs it as an uninterpreted predicate
CONSTANT Fuses(_, _)

Legal(g, t) == (t = "" /\ g > 0 /\ g < Len(toks)) => ~Fuses(toks[g], toks[g + 1])

LInit == Init /\ gaps = <<>>
Derive == Next /\ gaps' = IF mode' = "closed" THEN [g \in 0..Len(toks') |-> " "] ELSE gaps
Relayout(g, t) ==
  /\ mode = "closed"
  /\ g \in DOMAIN gaps /\ Legal(g, t)
  /\ gaps' = [gaps EXCEPT ![g] = t]
  /\ UNCHANGED vars
LNext == (mode = "open" /\ Derive) \/ (\E g \in 0..Len(toks), t \in Trivia : Relayout(g, t))
LSpec == LInit /\ [][LNext]_lvars

\* the property: no observable depends on the trivia
Observable == <<toks, AbsItems(stack[1].items)>>
LayoutIsStuttering == [][mode = "closed" => Observable' = Observable]_lvars
\* model values for the TLC run of this module
NeverFuses(a, b) == FALSE
SmallGaps == mode = "closed" => Cardinality({g \in DOMAIN gaps : gaps[g] # " "}) <= 2
=============================================================================
