--------------------------- MODULE WrapperObject ---------------------------
(***************************************************************************)
(* C14 (histories): a PybindWrapper object may wrap several files.  Its    *)
(* accumulators (classes to export for serialization, submodule variables  *)
(* already defined, the docstring overload counter, the keyword list) are  *)
(* working storage of one WrapFile step: the output of WrapFile(f) is a     *)
(* function of f and the options alone.                                    *)
(*   state   acc  - the accumulators, abstracted to the set of files that  *)
(*                  have left a trace in them                              *)
(*           outs - the outputs produced so far, each tagged with what it  *)
(*                  depended on                                            *)
(* The machine below is the specified behaviour (every step starts from    *)
(* empty accumulators); Leaky is the forbidden one, kept to show what the  *)
(* property excludes: TLC finds the violating history in it.               *)
(***************************************************************************)
EXTENDS Naturals, Sequences, FiniteSets, TLC
CONSTANTS Files, MaxLen, Leaks    \* Leaks = TRUE selects the forbidden machine
VARIABLES acc, outs
vars == <<acc, outs>>
Init == acc = {} /\ outs = <<>>
\* the output of a step: the file and whatever else influenced it
WrapFile(f) ==
  /\ Len(outs) < MaxLen
  /\ outs' = Append(outs, [file |-> f, influencedBy |-> IF Leaks THEN acc ELSE {}])
  /\ acc' = IF Leaks THEN acc \cup {f} ELSE {}
Next == \E f \in Files : WrapFile(f)
Spec == Init /\ [][Next]_vars
\* C14: what a step produces depends on its file only
HistoryIndependent == \A i \in 1..Len(outs) : outs[i].influencedBy = {}
\* all histories, for replay
Histories == UNION {[1..n -> Files] : n \in 1..MaxLen}
=============================================================================
