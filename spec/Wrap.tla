-------------------------------- MODULE Wrap --------------------------------
(***************************************************************************)
(* The tool as a pipeline (composition of the stage specifications):       *)
(*                                                                         *)
(*   text --Parse--> tree --Instantiate--> inst --Generate--> texts        *)
(*        --MakeDir / Write (one whole-file write per output)--> build dir *)
(*                                                                         *)
(* Every stage either succeeds or fails loudly; a failure can only happen  *)
(* BEFORE the first output is opened, because everything is generated in   *)
(* memory first (C07).  The run always terminates (C07), and what it       *)
(* leaves in the build directory is a function of the input and options    *)
(* alone (C14).  Input validity is abstracted into three flags (the text   *)
(* parses, the tree instantiates, the generator accepts it) and the set of *)
(* outputs the input determines (what is IN them is the business of the   *)
(* stage specifications).  Parse is refined by Iface/IfaceDerive,   *)
(* Instantiate by Instantiate.tla, Generate by PyBind.tla / Mex.tla, Write *)
(* by Build.tla.  WrapTrace.tla validates recorded runs of both generators *)
(* against this module.                                                    *)
(***************************************************************************)
EXTENDS Naturals, Sequences, FiniteSets, TLC
CONSTANTS Outputs             \* names a run may write
VARIABLES phase, files, dirs, pending, input
vars == <<phase, files, dirs, pending, input>>
Inputs == [parses : BOOLEAN, instantiates : BOOLEAN, generates : BOOLEAN, outs : SUBSET Outputs]
Files0 == [f \in {} |-> <<>>]
Content(f) == <<"content-of", f>>
\* a write plan covers exactly the outputs; a file may be opened more than once (the MATLAB generator writes the
\* headers of <module>_wrapper.cpp first and the whole file over them at the end): the LAST write is the final one
IsPlanOf(s, S) == {s[i] : i \in DOMAIN s} = S
Plans(S, extra) == UNION {{s \in [1..n -> S] : IsPlanOf(s, S)} : n \in Cardinality(S)..(Cardinality(S) + extra)}
Interim(f) == <<"interim-content-of", f>>

InitWith(inp) == /\ phase = "start" /\ files = Files0 /\ dirs = {} /\ pending = <<>> /\ input = inp
Init == \E inp \in Inputs : InitWith(inp)
Parse == /\ phase = "start"
         /\ phase' = IF input.parses THEN "parsed" ELSE "failed"
         /\ UNCHANGED <<files, dirs, pending, input>>
Instantiate == /\ phase = "parsed"
               /\ phase' = IF input.instantiates THEN "instantiated" ELSE "failed"
               /\ UNCHANGED <<files, dirs, pending, input>>
\* all output texts are produced in memory, in some order s; nothing has touched the file system yet
Generate(s) == /\ phase = "instantiated"
               /\ IF input.generates
                  THEN IsPlanOf(s, input.outs) /\ phase' = "generated" /\ pending' = s
                  ELSE phase' = "failed" /\ pending' = pending
               /\ UNCHANGED <<files, dirs, input>>
\* package directories are created on the way (MATLAB +ns folders)
MakeDir(d) == /\ phase = "generated" /\ dirs' = dirs \cup {d} /\ UNCHANGED <<phase, files, pending, input>>
\* one whole-file write (open-truncate, write, close taken together: Build.tla refines this step)
Write == /\ phase = "generated" /\ pending # <<>>
         /\ LET g == Head(pending)
                later == \E i \in DOMAIN Tail(pending) : Tail(pending)[i] = g
            IN files' = [f \in DOMAIN files \cup {g} |-> IF f = g THEN (IF later THEN Interim(f) ELSE Content(f)) ELSE files[f]]
         /\ pending' = Tail(pending)
         /\ UNCHANGED <<phase, dirs, input>>
Finish == /\ phase = "generated" /\ pending = <<>> /\ phase' = "done" /\ UNCHANGED <<files, dirs, pending, input>>
Next == Parse \/ Instantiate \/ (\E s \in Plans(input.outs, 1) : Generate(s)) \/ Write \/ Finish
        \/ (\E d \in {"+pkg"} : d \notin dirs /\ MakeDir(d))
Spec == Init /\ [][Next]_vars /\ WF_vars(Next)

\* C07: a failing run creates or modifies no output file (and no directory)
FailureLeavesNoTrace == phase = "failed" => (files = Files0 /\ dirs = {})
\* a file is only ever written after everything was generated
WritesOnlyAfterGeneration == (files # Files0 \/ dirs # {}) => phase \in {"generated", "done"}
OnlyOutputs == DOMAIN files \subseteq input.outs
\* C14: the result of a successful run is the same whatever order the outputs were generated and written in
DoneIsDeterministic == phase = "done" => files = [f \in input.outs |-> Content(f)]
\* C07: the run terminates
Terminates == <>(phase \in {"done", "failed"})
\* an accepted input is fully processed, a rejected one is rejected: never half-used
Outcome == [](phase = "done" => (input.parses /\ input.instantiates /\ input.generates))
Completes == (input.parses /\ input.instantiates /\ input.generates) ~> (phase = "done")
=============================================================================
