----------------------------- MODULE MxConvert -----------------------------
(***************************************************************************)
(* C18: the conversions of matlab.h between C++ values and MATLAB arrays.  *)
(* An mxArray is  [class, m, n, data]  with data the column-major sequence *)
(* of its m*n elements.  Element values are OPAQUE TOKENS (1, 2, 3, ...):  *)
(* the model decides shapes, element positions and error outcomes; the     *)
(* driver maps tokens to concrete boundary values of each type.            *)
(*   Wrap(T, v)     C++ value -> array                                     *)
(*   Unwrap(T, a)   array -> [ok, value]                                   *)
(* A C++ value is [rows, cols, elems] with elems(i, j) read row by row     *)
(* (scalars and strings are 1 x len).                                      *)
(***************************************************************************)
EXTENDS Naturals, Sequences, FiniteSets, TLC, Json

Scalars == {"bool", "char", "unsigned char", "int", "size_t", "double"}
Vectors == {"Vector", "Point2", "Point3"}
Types == Scalars \cup {"string", "Matrix"} \cup Vectors
Classes == {"double", "uint64", "int64", "char", "logical", "int32", "single"}

\* a C++ value of shape r x c whose element (i, j) is the token tok(i, j) = (i-1)*c + j   (row-major numbering)
Value(r, c) == [rows |-> r, cols |-> c, elems |-> [k \in 1..(r * c) |-> k]]
At(v, i, j) == v.elems[(i - 1) * v.cols + j]

\* column-major layout of a value: data[(j-1)*m + i] = value(i, j)    -- the loops of wrap_Matrix / wrap_Vector
ColMajor(v) == [k \in 1..(v.rows * v.cols) |-> At(v, ((k - 1) % v.rows) + 1, ((k - 1) \div v.rows) + 1)]

Wrap(T, v) ==
  CASE T = "double"  -> [class |-> "double", m |-> 1, n |-> 1, data |-> v.elems]
    [] T \in Scalars -> [class |-> "uint64", m |-> 1, n |-> 1, data |-> v.elems]       \* written into a zeroed 64-bit cell
    [] T = "string"  -> [class |-> "char", m |-> IF v.cols = 0 THEN 0 ELSE 1, n |-> v.cols, data |-> v.elems]
    [] T \in Vectors -> [class |-> "double", m |-> v.rows, n |-> 1, data |-> ColMajor(v)]
    [] T = "Matrix"  -> [class |-> "double", m |-> v.rows, n |-> v.cols, data |-> ColMajor(v)]

\* the inverse layout: value(i, j) = data[(j-1)*m + i]               -- the loops of unwrap< Matrix >
FromColMajor(a) == [rows |-> a.m, cols |-> a.n,
                    elems |-> [k \in 1..(a.m * a.n) |-> a.data[(((k - 1) % a.n)) * a.m + ((k - 1) \div a.n) + 1]]]
Err == [ok |-> FALSE, value |-> Value(0, 0)]
Ok(v) == [ok |-> TRUE, value |-> v]

Unwrap(T, a) ==
  CASE T \in Scalars -> IF a.m # 1 \/ a.n # 1 THEN Err ELSE Ok([rows |-> 1, cols |-> 1, elems |-> a.data])
    [] T = "string"  -> IF a.class # "char" THEN Err ELSE Ok([rows |-> 1, cols |-> a.m * a.n, elems |-> a.data])
    [] T \in Vectors -> IF a.class # "double" \/ a.n # 1 THEN Err ELSE Ok([rows |-> a.m, cols |-> 1, elems |-> a.data])
    [] T = "Matrix"  -> IF a.class # "double" THEN Err ELSE Ok(FromColMajor(a))

\* shapes a value of type T can have
Shapes(T, maxdim) ==
  CASE T \in Scalars -> {<<1, 1>>}
    [] T = "string"  -> {<<1, c>> : c \in 0..maxdim}
    [] T \in Vectors -> {<<r, 1>> : r \in 0..maxdim}
    [] T = "Matrix"  -> {<<r, c>> : r \in 0..maxdim, c \in 0..maxdim}

\* C18, first sentence: wrap followed by unwrap is the identity, shape and element positions included
RoundTrip(maxdim) == \A T \in Types : \A s \in Shapes(T, maxdim) :
                        Unwrap(T, Wrap(T, Value(s[1], s[2]))) = Ok(Value(s[1], s[2]))
\* second sentence: a non-scalar where a scalar is required, a non-double where a vector / matrix is required, a
\* non-char where a string is required is an error, not a value
ErrorTable(maxdim) ==
  \A T \in Types, cl \in Classes, m \in 0..maxdim, n \in 0..maxdim :
     LET a == [class |-> cl, m |-> m, n |-> n, data |-> [k \in 1..(m * n) |-> k]] IN
     /\ (T \in Scalars /\ (m # 1 \/ n # 1)) => ~Unwrap(T, a).ok
     /\ (T \in Vectors \cup {"Matrix"} /\ cl # "double") => ~Unwrap(T, a).ok
     /\ (T \in Vectors /\ n # 1) => ~Unwrap(T, a).ok
     /\ (T = "string" /\ cl # "char") => ~Unwrap(T, a).ok

\* every case the driver executes against the real matlab.h: source array -> expected outcome
Cases(maxdim) ==
  { [T |-> T, class |-> cl, m |-> m, n |-> n, ok |-> Unwrap(T, [class |-> cl, m |-> m, n |-> n, data |-> [k \in 1..(m * n) |-> k]]).ok,
     elems |-> Unwrap(T, [class |-> cl, m |-> m, n |-> n, data |-> [k \in 1..(m * n) |-> k]]).value.elems,
     rows |-> Unwrap(T, [class |-> cl, m |-> m, n |-> n, data |-> [k \in 1..(m * n) |-> k]]).value.rows,
     cols |-> Unwrap(T, [class |-> cl, m |-> m, n |-> n, data |-> [k \in 1..(m * n) |-> k]]).value.cols]
    : T \in Types, cl \in Classes, m \in 0..maxdim, n \in 0..maxdim }
WrapCases(maxdim) ==
  UNION { { [T |-> T, rows |-> s[1], cols |-> s[2], array |-> Wrap(T, Value(s[1], s[2]))] : s \in Shapes(T, maxdim) } : T \in Types }

---------------------------------------------------------------------------
\* Handles: an object passed to MATLAB and back.  State: for each object its use count and the set of live handles.
CONSTANTS Objects, MaxSteps
VARIABLES owner, handles, nexth, log
hvars == <<owner, handles, nexth, log>>
HInit == owner = [o \in Objects |-> TRUE] /\ handles = {} /\ nexth = 1 /\ log = <<>>
UseCount(o) == (IF owner[o] THEN 1 ELSE 0) + Cardinality({h \in handles : h.obj = o})
Alive(o) == UseCount(o) > 0
\* wrap_shared_ptr: a heap copy of the shared_ptr becomes a MATLAB handle.  With isVirtual the pointer travels as a
\* shared_ptr<void> that lives only for the duration of the call; the MATLAB constructor up-casts it into the heap
\* copy it keeps (upcastFromVoid routine).  Either way exactly ONE reference is added.
WrapHandle(o, virt) ==
  /\ owner[o] /\ Len(log) < MaxSteps
  /\ handles' = handles \cup {[id |-> nexth, obj |-> o]} /\ nexth' = nexth + 1
  /\ log' = Append(log, [op |-> IF virt THEN "wrapvirtual" ELSE "wrap", obj |-> o, h |-> nexth, count |-> UseCount(o) + 1])
  /\ UNCHANGED owner
UnwrapHandle(h) ==    \* unwrap_shared_ptr: a temporary copy, same object
  /\ h \in handles /\ Len(log) < MaxSteps
  /\ log' = Append(log, [op |-> "unwrap", obj |-> h.obj, h |-> h.id, count |-> UseCount(h.obj)])
  /\ UNCHANGED <<owner, handles, nexth>>
Release(h) ==         \* the deconstructor routine deletes the heap copy
  /\ h \in handles /\ Len(log) < MaxSteps
  /\ handles' = handles \ {h}
  /\ log' = Append(log, [op |-> "release", obj |-> h.obj, h |-> h.id, count |-> UseCount(h.obj) - 1])
  /\ UNCHANGED <<owner, nexth>>
DropOwner(o) ==       \* the C++ side lets go of its own reference
  /\ owner[o] /\ Len(log) < MaxSteps
  /\ owner' = [owner EXCEPT ![o] = FALSE]
  /\ log' = Append(log, [op |-> "drop", obj |-> o, h |-> 0, count |-> UseCount(o) - 1])
  /\ UNCHANGED <<handles, nexth>>
HNext == (\E o \in Objects : (\E virt \in BOOLEAN : WrapHandle(o, virt)) \/ DropOwner(o)) \/ (\E h \in handles : UnwrapHandle(h) \/ Release(h))
HSpec == HInit /\ [][HNext]_hvars
\* the object lives exactly as long as a handle (or the C++ owner) exists
KeptAlive == \A h \in handles : Alive(h.obj)
EmitLog == (Len(log) = MaxSteps) => PrintT(<<"HANDLES", ToJson(log)>>)
=============================================================================
