INIT LInit
NEXT LNext
INVARIANT LawsHold
CONSTANTS
  NsChoices <- ExhNsChoices
  ClassChoices <- ExhClassChoices
  MemberChoices <- ExhMemberChoices
  LeafChoices <- ExhLeafChoices
  Universe = "inst"
  TypeDepth0 = 0
  MaxArgs = 0
  MaxItems = 1
  RichArgs = FALSE
  Target = 1
  MinDecls = 1
  MaxNsDepth = 1
  MaxMembers = 1
CHECK_DEADLOCK FALSE
