----------------------------- MODULE IfaceTrace -----------------------------
(***************************************************************************)
(* Trace validation for the parser (code -> spec).  A trace is a batch of   *)
(* observations  [id, toks, tree]  recorded from the implementation: the   *)
(* token sequence of an input it ACCEPTED (lexed by the harness, comments  *)
(* removed) and the projection of the tree it returned.  The specification *)
(* decides whether the tree accounts for every token, in order and scope   *)
(* (Iface!Explains), i.e. whether some derivation of the dialect writes    *)
(* exactly these tokens and abstracts to exactly this tree.                *)
(* One TLC state per observation; one VERDICT line per observation.        *)
(***************************************************************************)
EXTENDS Iface, Json, IOUtils, TLCExt

Batch == JsonDeserialize(IOEnv.TRACE_FILE)

VARIABLE i
Init == i = 1

Clause(ob) ==
  IF ~Balanced(ob.toks) THEN "accepted-unbalanced-input"
  ELSE IF ~Explains(ob.tree, ob.toks) THEN "tree-does-not-explain-tokens"
  ELSE ""

Next ==
  /\ i <= Len(Batch)
  /\ PrintT(<<"VERDICT", Batch[i].id, Clause(Batch[i])>>)
  /\ i' = i + 1

Spec == Init /\ [][Next]_i
\* the whole batch was consumed
Accepted == TLCGet("stats").diameter - 1 = Len(Batch)
=============================================================================
