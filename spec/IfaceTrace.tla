----------------------------- MODULE IfaceTrace -----------------------------
(***************************************************************************)
(* Trace validation for the parser (code -> spec).  A trace is a batch of   *)
(* observations  [id, toks, tree]  recorded from the implementation: the   *)
(* token sequence of an input it ACCEPTED (lexed by the harness, comments  *)
(* removed) and the projection of the tree it returned.  The specification *)
(* decides whether the tree accounts for every token, in order and scope   *)
(* (Iface!Explains), i.e. whether some derivation of the dialect writes    *)
(* exactly these tokens and abstracts to exactly this tree.                *)
(* One TLC state per observation; one VERDICT line per observation.        *)
(***************************************************************************)
EXTENDS Corrupt, Json, IOUtils, TLCExt

Batch == JsonDeserialize(IOEnv.TRACE_FILE)

VARIABLE pos
Init == pos = 1

\* an observation may carry a fault descriptor [op, i, x] applied to `base`; then the tokens the implementation
\* saw must be exactly ApplyCorrupt(base, op, i, x)
Faulty(ob) == ApplyCorrupt(ob.base, ob.op, ob.i, ob.x)

\* The corrupted tokens are written with the canonical layout (one blank, nothing around '::').  A default value
\* is copied verbatim and may legitimately absorb neighbouring tokens, so the harness re-lexes the text and hands over
\* the regrouped tokens `ob.toks` with `ob.groups[k] = <<first, last>>` (indices into the corrupted tokens).
\* The specification checks the regrouping: an order-preserving partition, every group spells its token, and only a
\* default-value position (directly after '=') may hold more than one token.
RECURSIVE JoinCanon(_)
JoinCanon(s) == IF Len(s) = 1 THEN s[1]
                ELSE s[1] \o (IF s[1] = "::" \/ s[2] = "::" THEN "" ELSE " ") \o JoinCanon(Tail(s))
Regrouped(ob) ==
  LET c == Faulty(ob) g == ob.groups l == ob.toks IN
  /\ Len(g) = Len(l)
  /\ (Len(c) = 0) = (Len(g) = 0)
  /\ Len(g) > 0 => (g[1][1] = 1 /\ g[Len(g)][2] = Len(c))
  /\ \A k \in 1..Len(g) :
        /\ g[k][1] <= g[k][2]
        /\ k < Len(g) => g[k + 1][1] = g[k][2] + 1
        /\ JoinCanon(SubSeq(c, g[k][1], g[k][2])) = l[k]
        /\ g[k][2] > g[k][1] => (k > 1 /\ l[k - 1] = "=")

\* classification of an analysed deviation (known finding): the tree explains the tokens once the pointer /
\* reference / const markers written on a *typename* position (typedef target, instantiation list entry) are
\* removed, i.e. the implementation accepted and dropped exactly those markers (a base class is such a position too:
\* the instantiator keeps the typename of a templated base only)
RECURSIVE DropAt(_, _)
DropAt(toks, drop) == SelectSeq([i \in 1..Len(toks) |-> IF i \in drop THEN "" ELSE toks[i]], LAMBDA t : t # "")
QualToks == {"*", "@", "&", "const"}
\* position i lies in a typedef statement, or in an instantiation list `= { ... }` of a template header
InTypedef(toks, i) ==
  \E j \in 1..i : toks[j] = "typedef" /\ \A k \in j..i : toks[k] # ";"
InInstList(toks, i) ==
  \E j \in 2..i : toks[j] = "{" /\ toks[j - 1] = "=" /\ \A k \in j..i : toks[k] # "}"
\* ... or in the base-class clause `class Name : <base> {`
InBase(toks, i) ==
  \E j \in 3..i : toks[j] = ":" /\ toks[j - 2] = "class" /\ \A k \in j..i : toks[k] \notin {"{", ";"}
ExplainsAfterDroppingOneQual(tree, toks) ==
  \E i \in 1..Len(toks) : /\ toks[i] \in QualToks
                          /\ (InTypedef(toks, i) \/ InInstList(toks, i) \/ InBase(toks, i))
                          /\ Explains(tree, DropAt(toks, {i}))

\* classification of a rejected well-formed input (known finding): a two-word basic type is an entry of an
\* instantiation list; positions of the first words are reported so that the harness can confirm the analysis by
\* parsing the same file with one-word types in their place
MultiWordInInstList(toks) ==
  {i \in 1..(Len(toks) - 1) : toks[i] = "unsigned" /\ toks[i + 1] = "char" /\ InInstList(toks, i)}
RejectClass(toks) == IF MultiWordInInstList(toks) # {} THEN "MultiWordBasicTypeInInstantiationList" ELSE ""

Clause(ob) ==
  LET toks == ob.toks IN
  IF ob.op = "rejected" THEN "wellformed-input-rejected/" \o RejectClass(toks)
  ELSE IF ob.op = "unclose" THEN "accepted-unterminated-include"      \* (whatever tree came out: the '>' is missing)
  ELSE IF ob.op # "" /\ ~Regrouped(ob) THEN "harness-regrouping-wrong"
  ELSE IF ~Balanced(toks) THEN "accepted-unbalanced-input"
  ELSE IF Explains(ob.tree, toks) THEN ""
  ELSE IF ExplainsAfterDroppingOneQual(ob.tree, toks) THEN "tree-does-not-explain-tokens/one-qualifier-dropped"
  ELSE "tree-does-not-explain-tokens"

Next ==
  /\ pos <= Len(Batch)
  /\ PrintT(<<"VERDICT", Batch[pos].id, Clause(Batch[pos])>>)
  /\ pos' = pos + 1

Spec == Init /\ [][Next]_pos
\* the whole batch was consumed
Accepted == TLCGet("stats").diameter - 1 = Len(Batch)
=============================================================================
