SPECIFICATION Spec
CONSTANTS
  NsChoices <- SimNsChoices
  ClassChoices <- SimClassChoices
  MemberChoices <- SimMemberChoices
  LeafChoices <- SimLeafChoices
  Target = 12
  MinDecls = 12
  MaxNsDepth = 3
  MaxMembers = 6
  Profile = "parse"
INVARIANT InvRender
INVARIANT InvCount
INVARIANT InvShape
INVARIANT InvClosed
CHECK_DEADLOCK FALSE
