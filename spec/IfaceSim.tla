------------------------------ MODULE IfaceSim ------------------------------
(***************************************************************************)
(* Random derivations: every choice set of IfaceDerive is a singleton      *)
(* drawn with RandomElement, so `tlc -simulate` walks one random module    *)
(* per behaviour without enumerating the (astronomically large) pools.     *)
(* The pools are chosen to collide: parameter spellings occur inside other *)
(* identifiers (T / Test / T1 / Type), Python keywords occur as member and *)
(* function names, class names repeat across namespaces.                   *)
(***************************************************************************)
EXTENDS IfaceDerive

CONSTANTS Profile   \* "parse" (anything the grammar accepts) | "exec" (compilable against a rendered library) | "call"

Pick(S) == RandomElement(S)
Pct(u) == RandomElement(1..100)   \* NB: an operator *with* a parameter: TLC evaluates zero-arity definitions once

NsNamePool     == {"gtsam", "ns1", "ns2", "inner", "a", "b", "gtsam_unstable", "ab"}   \* some names are prefixes of others
ClassNamePool  == {"A", "B", "Pose3", "Test", "MyFactor", "T1", "Value", "Klass"}
ParamPool      == {"T", "U", "POSE", "Va"}
CustomPool     == {"A", "B", "Pose3", "Test", "Vector", "Matrix", "string", "Point3", "Type", "Value", "T1", "Key",
                   \* identifiers that BEGIN with a keyword or basic type of the dialect (word boundaries)
                   "constraint", "const_iterator", "doubled", "integer", "boolean", "voidptr", "stringy", "This_", "virtuality",
                   "classy", "staticT", "enumerated", "templated", "typedefs", "namespaced", "size_type", "charT"}
TemplNamePool  == {<<"std", "vector">>, <<"FastSet">>, <<"gtsam", "Foo">>, <<"std", "map">>, <<"Tpl">>}
NsPathPool     == {<<>>, <<"gtsam">>, <<"ns1", "inner">>, <<"std">>, <<"a", "b", "c">>, <<"Tools">>, <<"gtsam", "Uv">>,
                   <<"POSEs">>}   \* some namespaces begin with a parameter's spelling
ScopedPool     == {"Value", "Type", "shared_ptr", "Sub"}
MethodNamePool == {"f", "get", "print", "insert", "setValue", "test", "type", "lambda", "def", "at", "size",
                   "templatedMethod", "svg", "update"}
StaticNamePool == {"Create", "create", "Identity", "global", "from", "g"}
FuncNamePool   == {"fun", "load2D", "print", "lambda", "aGlobalFunction", "add", "tmpl", "svg", "html"}   \* (display-hook names are special for METHODS only)
ArgNamePool    == {"x", "y", "key", "value", "other", "t", "pose", "s", "n", "constant", "intx", "thisOne"}
VarNamePool    == {"kGravity", "seed", "name", "status", "kMax"}
EnumNamePool   == {"Kind", "Color", "Verbosity", "Status"}
EnumeratorPool == {"Red", "Green", "Blue", "SILENT", "VALID", "Dog", "Cat", "None_"}
HeaderPool     == {"gtsam/geometry/Point2.h", "vector", "path/to/ns1.h", "a-b c.h"}
DefaultPool    == {"0", "-9.81", "1e-5", "\"hello, world\"", "'a'", "gtsam::Pose3()", "Foo(1, 2)", "{1, 2}",
                   "std::vector<int>()", "a + b", "ns::K::Red", "f(g(1), \"x)\")", "nullptr",
                   "\"http://host/a\"", "\"/* no comment */\"", "'/'", "\"a;b\"",
                   "\"two  blanks\"", "Format(\"%d   %d\", 2)", "\",  \"",
                   \* texts that merely CONTAIN the spelling of a template parameter (T, U, POSE, Va)
                   "\"Title\"", "kUnit", "Value(3)", "POSE_DEFAULT"}
\* "mexcall": the call profile for the MATLAB runtime (matlab.h converts no float, the library types of the exec profile
\* clash with the runtime's own gtsam types; raw-pointer results, templated functions / static methods and
\* `unsigned char` parameters are recorded findings that stop a build or a call - they are witnessed by directed modules)
Mex == Profile = "mexcall"
BasicPool      == {"void", "bool", "unsigned char", "char", "int", "size_t", "double", "float"} \ (IF Mex THEN {"float", "unsigned char"} ELSE {})
ValueBasicPool == BasicPool \ {"void"}
BinOps         == OperatorSyms \ {"()", "[]"}

\* "call": the exec profile narrowed to modules whose bindings can be CALLED from Python against a rendered, instrumented
\* library (C04 executed half): parameter / return / property types are basic, string, template parameters or classes
\* declared earlier in the module; bases are declared classes; every class starts with a constructor
Call == Profile \in {"call", "mexcall"}
Exec == Profile \in {"exec", "call", "mexcall"}
LibTypes == {<<"Key">>, <<"gtsam", "Pose3">>, <<"gtsam", "Point3">>, <<"lib", "geo", "Shape">>, <<"Vector">>,
             <<"Tools", "Index">>, <<"POSEs", "Frame">>, <<"Values", "Entry">>, <<"Util", "Id">>}   \* namespaces that begin with a parameter's spelling
LibTemplates == {<<"lib", "Seq">>, <<"lib", "Box">>}   \* (std::vector rejects const / reference element types)
\* a literal that initialises a value of the given basic type
LiteralFor(n) == CASE n = "int" -> "-1" [] n = "size_t" -> "3" [] n = "double" -> "1.5" [] n = "float" -> "2.5f" [] n = "bool" -> "true"
                   [] n = "char" -> "'c'" [] n = "unsigned char" -> "7" [] OTHER -> "0"
RandQual(u) == LET r == Pct(0) IN IF r <= 40 THEN "" ELSE IF r <= 60 THEN "&" ELSE IF r <= 80 THEN "*" ELSE "@"
RandConst(u) == Pct(0) <= 35

\* a plain (non-templated) type; params in scope may be used directly or scoped (T::Value)
RandPlainExec(ctx, allowVoid) ==
  LET r == Pct(0)
      declared == SelectSeq(ctx.items, LAMBDA d : d.k = "class" /\ d.tmpl = <<>>)
  IN
  IF r <= 30 THEN Ty(<<Pick(IF allowVoid THEN BasicPool ELSE ValueBasicPool)>>, <<>>, RandConst(0), IF Pct(0) <= 70 THEN "" ELSE "&", TRUE)
  ELSE IF r <= 35 THEN Ty(<<"string">>, <<>>, RandConst(0), IF Pct(0) <= 60 \/ Mex THEN "" ELSE "&", FALSE)     \* no smart pointers to converted types (Mex: string references are a recorded finding)
  ELSE IF r <= 50 /\ ctx.tparams # {} THEN Ty(<<Pick(ctx.tparams)>>, <<>>, RandConst(0), RandQual(0), FALSE)
  ELSE IF r <= 56 /\ ctx.tparams # {} /\ ~Call THEN Ty(<<Pick(ctx.tparams), Pick(ScopedPool)>>, <<>>, RandConst(0), Pick({"", "&"}), FALSE)
  ELSE IF r <= 64 /\ ctx.cls # "" THEN Ty(<<"This">>, <<>>, RandConst(0), RandQual(0), FALSE)
  ELSE IF r <= 68 /\ ctx.cls # "" /\ ~Call THEN Ty(<<"This", Pick(ScopedPool)>>, <<>>, RandConst(0), Pick({"", "&"}), FALSE)
  ELSE IF (r <= 80 \/ Call) /\ Len(declared) > 0
  THEN Ty(ctx.nspath \o <<declared[Pick(1..Len(declared))].name>>, <<>>, RandConst(0), RandQual(0), FALSE)
  ELSE IF Call THEN Ty(<<Pick(ValueBasicPool)>>, <<>>, RandConst(0), IF Pct(0) <= 70 THEN "" ELSE "&", TRUE)
  ELSE Ty(Pick(LibTypes), <<>>, RandConst(0), RandQual(0), FALSE)

RandPlain(ctx, allowVoid) ==
  LET r == Pct(0) IN
  IF Exec THEN RandPlainExec(ctx, allowVoid)
  ELSE IF r <= 25 THEN Ty(<<Pick(IF allowVoid THEN BasicPool ELSE ValueBasicPool)>>, <<>>, RandConst(0), RandQual(0), TRUE)
  ELSE IF r <= 40 /\ ctx.tparams # {} THEN Ty(<<Pick(ctx.tparams)>>, <<>>, RandConst(0), RandQual(0), FALSE)
  ELSE IF r <= 48 /\ ctx.tparams # {} THEN Ty(<<Pick(ctx.tparams)>> \o (IF Pct(0) <= 30 THEN <<"Traits">> ELSE <<>>) \o <<Pick(ScopedPool)>>,
                                               <<>>, RandConst(0), RandQual(0), FALSE)
  ELSE IF r <= 54 /\ ctx.cls # "" THEN Ty(<<"This">>, <<>>, RandConst(0), RandQual(0), FALSE)
  ELSE IF r <= 58 /\ ctx.cls # "" THEN Ty(<<"This", Pick(ScopedPool)>>, <<>>, RandConst(0), RandQual(0), FALSE)
  ELSE Ty(Pick(NsPathPool) \o <<Pick(CustomPool)>>, <<>>, RandConst(0), RandQual(0), FALSE)

RECURSIVE RandType(_, _)
RandType(ctx, d) ==
  IF d = 0 \/ Call \/ Pct(0) <= 65 THEN RandPlain(ctx, FALSE)
  ELSE LET n == IF Pct(0) <= 70 THEN 1 ELSE 2
       IN IF Exec THEN Ty(Pick(LibTemplates), <<RandType(ctx, d - 1)>>, RandConst(0), RandQual(0), FALSE)
          ELSE Ty(Pick(TemplNamePool), [i \in 1..n |-> RandType(ctx, d - 1)], RandConst(0), RandQual(0), FALSE)

\* a typename (no qualifiers) for instantiation lists / typedef targets / bases; numbers are allowed as arguments
RECURSIVE RandTypename(_)
RandTypename(d) ==
  LET r == Pct(0) IN
  IF Exec THEN (IF d = 0 \/ r <= 70 THEN TN(Pick(LibTypes), <<>>)     \* class types only: T::Value must exist
                ELSE TN(Pick(LibTemplates), <<RandTypename(0)>>))
  ELSE IF d = 0 \/ r <= 60
  THEN IF r <= 8 THEN TN(<<Pick({"3", "2", "12"})>>, <<>>)
       ELSE IF r <= 25 THEN TN(<<Pick({"double", "int", "size_t", "string"})>>, <<>>)
       ELSE TN(Pick(NsPathPool) \o <<Pick(CustomPool)>>, <<>>)
  ELSE TN(Pick(TemplNamePool), [i \in 1..(IF Pct(0) <= 70 THEN 1 ELSE 2) |-> RandTypename(d - 1)])

RandDefault(u) == Pick(DefaultPool)

\* n distinct random elements of a pool, as a sequence
RECURSIVE RandDistinct(_, _)
RandDistinct(pool, n) ==
  IF n = 0 THEN <<>>
  ELSE LET x == Pick(pool) IN <<x>> \o RandDistinct(pool \ {x}, n - 1)

RECURSIVE RandArgSeq(_, _, _, _, _)
RandArgSeq(ctx, names, n, nd, i) ==
  IF i > n THEN <<>>
  ELSE << Arg(RandType(ctx, 2), names[i], i > n - nd, IF i > n - nd THEN RandDefault(0) ELSE "") >> \o RandArgSeq(ctx, names, n, nd, i + 1)
RECURSIVE RandArgSeqN(_, _, _, _)
RandArgSeqN(ctx, names, n, i) == IF i > n THEN <<>> ELSE << Arg(RandType(ctx, 1), names[i], FALSE, "") >> \o RandArgSeqN(ctx, names, n, i + 1)

\* argument lists: distinct names; defaults only in a trailing block
RandArgs(ctx, maxn) ==
  LET n  == Pick(0..maxn)
      nd == IF Pct(0) <= 30 THEN Pick(0..n) ELSE 0
      names == RandDistinct(ArgNamePool, n)
      \* (built with \o: a function constructor [i \in S |-> e] is evaluated lazily at EVERY application, which would
      \* draw new random types each time an element is looked at)
      raw == RandArgSeq(ctx, names, n, nd, 1)
      \* exec: a default must be a literal of the parameter's type, so only value-passed basic parameters get one, and
      \* the defaulted ones still form a trailing block
      okdef(a) == a.t.basic /\ a.t.q = "" /\ a.t.qn # <<"void">>
      lastbad == IF \E i \in 1..n : raw[i].hasdef /\ ~okdef(raw[i]) THEN CHOOSE i \in 1..n : raw[i].hasdef /\ ~okdef(raw[i]) /\ \A j \in (i + 1)..n : ~(raw[j].hasdef /\ ~okdef(raw[j])) ELSE 0
  IN IF Exec THEN [i \in 1..n |-> IF raw[i].hasdef /\ i > lastbad THEN [raw[i] EXCEPT !.def = LiteralFor(raw[i].t.qn[1])]
                                    ELSE [raw[i] EXCEPT !.hasdef = FALSE, !.def = ""]]
     ELSE raw

RandRet(ctx) ==
  LET r == Pct(0)
      own(t) == IF Mex /\ t.q = "@" THEN [t EXCEPT !.q = "*"] ELSE t
  IN
  IF r <= 20 THEN Ret1(Ty(<<"void">>, <<>>, FALSE, "", TRUE))
  ELSE IF r <= 35 THEN Ret(TRUE, own(RandPlain(ctx, FALSE)), own(RandPlain(ctx, FALSE)), Pct(0) <= 50)
  ELSE Ret1(own(RandType(ctx, 2)))

RandTmpl(ctx, withLists) ==
  \* template list for a member / function / class; parameter names distinct and not already in scope
  LET avail == ParamPool \ ctx.tparams
      n == IF Cardinality(avail) >= 2 /\ Pct(0) <= 30 THEN 2 ELSE 1
      p1 == Pick(avail)
      p2 == Pick(avail \ {p1})
      ExecArgs == {TN(q, <<>>) : q \in LibTypes} \cup {TN(<<"lib", "Seq">>, <<TN(<<"gtsam", "Pose3">>, <<>>)>>), TN(<<"lib", "Box">>, <<TN(<<"Key">>, <<>>)>>)}
      declared == SelectSeq(ctx.items, LAMBDA d : d.k = "class" /\ d.tmpl = <<>>)
      CallArgs == {TN(ctx.nspath \o <<declared[j].name>>, <<>>) : j \in 1..Len(declared)}
      lst(i) == IF ~withLists THEN <<>>
                ELSE IF Mex /\ CallArgs = {} THEN <<>>
                ELSE IF Call /\ CallArgs # {} THEN RandDistinct(CallArgs, Pick(1..(IF Cardinality(CallArgs) > 2 THEN 2 ELSE Cardinality(CallArgs))))
                ELSE IF Exec THEN RandDistinct(ExecArgs, Pick(1..3))            \* (a repeated argument would instantiate the same class twice)
                ELSE [j \in 1..Pick(1..3) |-> RandTypename(IF Pct(0) <= 25 THEN 2 ELSE 1)]      \* (sometimes an argument nested two levels deep)
  IN IF avail = {} THEN <<>>
     ELSE IF n = 1 THEN <<TP(p1, lst(1))>> ELSE <<TP(p1, lst(1)), TP(p2, lst(2))>>

WithParams(ctx, tm) == [ctx EXCEPT !.tparams = @ \cup {tm[i].name : i \in 1..Len(tm)}]

\* exec profile: C++ wants distinct names per scope, so names carry a running number
Uniq(name, k) == IF Exec THEN name \o ToString(k) ELSE name
RandArgsN(ctx, n) ==
  LET names == RandDistinct(ArgNamePool, n) IN RandArgSeqN(ctx, names, n, 1)

RandEnum(asMember) ==
  LET n == Pick(1..4)
      names == RandDistinct(EnumeratorPool, n)
  IN EnumN(Pick(EnumNamePool), Pick({"", "", "class", "struct"}), names)
RandEnumU(k) == LET e == RandEnum(TRUE) IN [e EXCEPT !.name = Uniq(e.name, k),
                                                          !.enumerators = [i \in 1..Len(e.enumerators) |-> Uniq(e.enumerators[i], k)]]

RandMember(ctx) ==
  LET r == IF Call /\ ctx.nmembers = 0 THEN 1 ELSE Pct(0) IN
  IF r <= 18 THEN
       LET tm == IF Pct(0) <= 20 THEN RandTmpl(ctx, TRUE) ELSE <<>>
           \* (C++ has no constructor taking its own class by value: such a parameter becomes a const reference)
           \* (and a constructor whose ONLY parameter is a reference to its own class is the copy constructor, which the
           \*  rendered library must not replace: such a parameter becomes an int)
           fix(as) == [i \in 1..Len(as) |-> IF as[i].t.qn = <<"This">> /\ Len(as) = 1 /\ as[i].t.q \in {"", "&"}
                                            THEN [as[i] EXCEPT !.t = Ty(<<"int">>, <<>>, FALSE, "", TRUE)]
                                            ELSE IF as[i].t.qn = <<"This">> /\ as[i].t.q = ""
                                            THEN [as[i] EXCEPT !.t = [as[i].t EXCEPT !.q = "&", !.const = TRUE]] ELSE as[i]]
       IN IF Exec THEN Ctor(ctx.cls, <<>>, fix(RandArgsN(ctx, IF ctx.nmembers > 4 THEN 4 ELSE ctx.nmembers)))
          ELSE Ctor(ctx.cls, tm, RandArgs(WithParams(ctx, tm), 3))
  ELSE IF r <= 50 THEN
       LET tm == IF Pct(0) <= 20 THEN RandTmpl(ctx, TRUE) ELSE <<>>
           c2 == WithParams(ctx, tm)
           \* names with special treatment in the generators come up often
           nm == IF Pct(0) <= 12 THEN "print" ELSE IF Pct(0) <= 6 THEN "serialize" ELSE Pick(MethodNamePool)
       IN Method(IF Exec /\ nm = "print" /\ ctx.nmembers # 1 THEN Uniq("show", ctx.nmembers) ELSE IF nm = "print" THEN nm
                 ELSE IF Exec /\ nm = "serialize" THEN Uniq("ser", ctx.nmembers) ELSE Uniq(nm, ctx.nmembers),
                 tm, RandRet(c2), RandArgs(c2, 3), IF Exec /\ nm = "print" THEN TRUE ELSE Pct(0) <= 50)    \* (print is const in a conforming library: __repr__ calls it on a const reference)
  ELSE IF r <= 65 THEN
       LET tm == IF Pct(0) <= 20 /\ ~Mex THEN RandTmpl(ctx, TRUE) ELSE <<>>
           c2 == WithParams(ctx, tm)
       IN Static(Uniq(Pick(StaticNamePool), ctx.nmembers), tm, RandRet(c2), RandArgs(c2, 3))
  ELSE IF r <= 78 THEN
       LET hd == Pct(0) <= 20 /\ ~Exec
           t0 == RandType(ctx, 1)
           \* (a reference member has no pointer-to-member; exec keeps value / pointer members)
           t1 == IF Mex /\ (t0.qn = <<"This">> \/ t0.q \in {"*", "@"}) THEN Ty(<<"int">>, <<>>, t0.const, "", TRUE)   \* (pointer-typed properties: recorded finding)
                 ELSE IF Exec /\ t0.qn = <<"This">> THEN [t0 EXCEPT !.q = "*"]          \* (a class cannot hold itself by value)
                 ELSE IF Exec /\ t0.q = "&" THEN [t0 EXCEPT !.q = ""] ELSE t0
       IN Prop(t1, Uniq(Pick(VarNamePool), ctx.nmembers), hd, IF hd THEN RandDefault(0) ELSE "")
  ELSE IF r <= 88 /\ (~Exec \/ ctx.nmembers = 2) THEN
       LET self == Ty(<<ctx.cls>>, <<>>, FALSE, "", FALSE)
           k == Pct(0)
       IN IF k <= 20 THEN Oper(Pick({"+", "-"}), Ret1(self), <<>>)
          ELSE IF k <= 40 THEN Oper(Pick({"()", "[]"}), Ret1(RandType(ctx, 1)), <<Arg(RandType(ctx, 1), Pick(ArgNamePool), FALSE, "")>>)
          ELSE Oper(Pick(BinOps), Ret1(self),
                    <<Arg(Ty(<<ctx.cls>>, <<>>, TRUE, "&", FALSE), Pick(ArgNamePool), FALSE, "")>>)
  ELSE IF r <= 93 /\ (~Exec \/ ctx.nmembers = 3) THEN
       LET k == IF Exec THEN Pick({"len", "iter"}) ELSE Pick({"len", "iter", "contains"})
       IN Dunder(k, IF k = "contains" THEN <<Arg(RandType(ctx, 1), Pick(ArgNamePool), FALSE, "")>> ELSE <<>>)
  ELSE RandEnumU(ctx.nmembers)

RandClassHdr(ctx) ==
  LET tm == IF Pct(0) <= 30 THEN RandTmpl([ctx EXCEPT !.tparams = {}], TRUE) ELSE <<>>
      hasbase == Pct(0) <= 30
      base == IF Pct(0) <= 30 THEN TN(Pick(NsPathPool) \o <<Pick(CustomPool)>>,
                                   <<IF tm # <<>> /\ Pct(0) <= 50 THEN TN(<<tm[1].name>>, <<>>) ELSE RandTypename(0)>>)
              ELSE TN(Pick(NsPathPool) \o <<Pick(CustomPool)>>, <<>>)
      declared == SelectSeq(ctx.items, LAMBDA d : d.k = "class" /\ d.tmpl = <<>>)
      ebase == IF Len(declared) > 0 /\ Pct(0) <= 60 THEN TN(ctx.nspath \o <<declared[Pick(1..Len(declared))].name>>, <<>>)
               ELSE IF Pct(0) <= 50 THEN TN(<<"lib", "Box">>, <<IF tm # <<>> THEN TN(<<tm[1].name>>, <<>>) ELSE TN(<<"double">>, <<>>)>>)
               ELSE TN(<<"lib", "geo", "Shape">>, <<>>)
      cbase == Len(declared) > 0 /\ hasbase
  IN IF Call THEN ClassN(Uniq(Pick(ClassNamePool), ctx.cnt), tm, Pct(0) <= 40, cbase,
                         IF cbase THEN TN(ctx.nspath \o <<declared[Pick(1..Len(declared))].name>>, <<>>) ELSE NoType, <<>>)
     ELSE IF Exec THEN ClassN(Uniq(Pick(ClassNamePool), ctx.cnt), tm, Pct(0) <= 40, hasbase, IF hasbase THEN ebase ELSE NoType, <<>>)
     ELSE ClassN(Pick(ClassNamePool), tm, Pct(0) <= 40, hasbase, IF hasbase THEN base ELSE NoType, <<>>)

RandLeaf(ctx) ==
  LET r == Pct(0) IN
  IF r <= 10 /\ ~Exec THEN Include(Pick(HeaderPool))
  ELSE IF r <= 22 /\ ~Exec THEN
       LET hp == Pct(0) <= 40
       IN Fwd(Pick(NsPathPool) \o <<Pick(ClassNamePool)>>, Pct(0) <= 50, hp,
              IF hp THEN Pick(NsPathPool) \o <<Pick(ClassNamePool)>> ELSE <<>>)
  ELSE IF r <= 32 THEN
       \* mostly a typedef of a template declared earlier in this namespace (resolvable), sometimes of anything
       LET tpls == SelectSeq(ctx.items, LAMBDA d : d.k \in {"class", "function"} /\ d.tmpl # <<>>) IN
       IF Len(tpls) > 0 /\ Pct(0) <= 85
       THEN LET d == tpls[Pick(1..Len(tpls))] IN
            Typedef(TN(ctx.nspath \o <<d.name>>, [i \in 1..Len(d.tmpl) |-> RandTypename(1)]), Uniq(Pick(ClassNamePool), ctx.cnt))
       ELSE IF Pct(0) <= 25 /\ ~Exec
       THEN Typedef(TN(Pick(NsPathPool) \o <<Pick(ClassNamePool)>>, [i \in 1..Pick(1..2) |-> RandTypename(1)]),
                    Pick(ClassNamePool))
       ELSE IF Exec /\ ~Call THEN RandEnumU(ctx.cnt)
       ELSE IF Call THEN Func(Uniq(Pick(FuncNamePool), ctx.cnt), <<>>, RandRet(ctx), RandArgs(ctx, 3))
       ELSE Include(Pick(HeaderPool))
  ELSE IF r <= 65 THEN
       LET tm == IF Pct(0) <= 25 /\ ~Mex THEN RandTmpl(ctx, TRUE) ELSE <<>>      \* (Mex: templated functions / statics are recorded findings)
           c2 == WithParams(ctx, tm)
       IN Func(Uniq(Pick(FuncNamePool), ctx.cnt), tm, RandRet(c2), RandArgs(c2, 3))
  ELSE IF r <= (IF Call THEN 70 ELSE 80) THEN RandEnumU(ctx.cnt)
  ELSE IF Exec THEN LET b == Pick(ValueBasicPool) hd == Pct(0) <= 50 IN
                    Var(Ty(<<b>>, <<>>, TRUE, "", TRUE), Uniq(Pick(VarNamePool), ctx.cnt), hd, IF hd THEN LiteralFor(b) ELSE "")
  ELSE LET hd == Pct(0) <= 50 IN Var(RandType(ctx, 1), Pick(VarNamePool), hd, IF hd THEN RandDefault(0) ELSE "")

\* ---- the choice operators handed to IfaceDerive (singletons; empty when the step should not happen)
SimNsChoices(ctx)     == IF Pct(0) <= 25 THEN {Pick(NsNamePool)} ELSE {}
SimClassChoices(ctx)  == IF Pct(0) <= (IF Call THEN 75 ELSE 45) THEN {RandClassHdr(ctx)} ELSE {}
SimMemberChoices(ctx) == {RandMember(ctx), RandMember(ctx), RandMember(ctx)}
SimLeafChoices(ctx)   == {RandLeaf(ctx), RandLeaf(ctx)}
=============================================================================
