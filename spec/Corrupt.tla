------------------------------ MODULE Corrupt ------------------------------
(***************************************************************************)
(* C07: token-level faults.  ApplyCorrupt is the fault model; the action   *)
(* Corrupt turns a closed derivation into a corrupted one.  For a          *)
(* corrupted input the specification allows exactly two outcomes:          *)
(*    reject           (parse / validation error, no output written)       *)
(*    accept(tree)     with Explains(tree, corrupted tokens)               *)
(* i.e. whatever the tool accepts must account for every token.            *)
(***************************************************************************)
EXTENDS Iface

Ops == {"delete", "duplicate", "swap", "truncate", "insert", "flip", "dropdefault", "rename", "unclose"}
\* "unclose" takes the closing '>' off an #include (a token of its own in this model): nothing can explain such an input
\* "dropdefault" removes the two tokens '=' <default> (a default before a non-default is a validation error);
\* "rename" replaces one token by the identifier Zzz (an undeclared name: constructor / typedef target mismatch)
Stray == <<"{", "}", "(", ")", "<", ">", ";", ",", "=", "::", "*", "@", "&", "class", "foo", "7", "const", ":">>

Flip(t) == CASE t = "(" -> ")" [] t = ")" -> "(" [] t = "{" -> "}" [] t = "}" -> "{"
             [] t = "<" -> ">" [] t = ">" -> "<" [] OTHER -> t

\* i ranges over 1..Len(toks) (insert: 1..Len+1 = the gap before token i); x indexes Stray (insert only)
ApplyCorrupt(toks, op, i, x) ==
  LET n == Len(toks) IN
  CASE op = "delete"    -> SubSeq(toks, 1, i - 1) \o SubSeq(toks, i + 1, n)
    [] op = "duplicate" -> SubSeq(toks, 1, i) \o SubSeq(toks, i, n)
    [] op = "swap"      -> IF i < n THEN SubSeq(toks, 1, i - 1) \o <<toks[i + 1], toks[i]>> \o SubSeq(toks, i + 2, n)
                           ELSE toks
    [] op = "truncate"  -> SubSeq(toks, 1, i - 1)
    [] op = "insert"    -> SubSeq(toks, 1, i - 1) \o <<Stray[x]>> \o SubSeq(toks, i, n)
    [] op = "flip"      -> [toks EXCEPT ![i] = Flip(@)]
    [] op = "dropdefault" -> SubSeq(toks, 1, i - 1) \o SubSeq(toks, i + 2, n)
    [] op = "rename"    -> [toks EXCEPT ![i] = "Zzz"]
    [] op = "unclose"   -> [toks EXCEPT ![i] = "#include <unterminated"]

Applicable(toks, op, i, x) ==
  /\ op \in Ops
  /\ i \in 1..(Len(toks) + (IF op = "insert" THEN 1 ELSE 0))
  /\ (op = "insert") => x \in 1..Len(Stray)
  /\ (op # "insert") => x = 0
  /\ (op = "swap") => i < Len(toks)
  /\ (op = "flip") => Flip(toks[i]) # toks[i]
  /\ (op = "dropdefault") => (i < Len(toks) /\ toks[i] = "=" /\ toks[i + 1] # "{")

\* size laws of the fault model (checked by TLC on the module's ASSUME for a sample sequence)
Sample == <<"class", "A", "{", "A", "(", "int", "x", ")", ";", "}", ";">>
ASSUME \A op \in Ops, i \in 1..12, x \in 0..Len(Stray) :
         Applicable(Sample, op, i, x) =>
           LET c == ApplyCorrupt(Sample, op, i, x) IN
           CASE op = "delete" -> Len(c) = Len(Sample) - 1
             [] op = "duplicate" -> Len(c) = Len(Sample) + 1 /\ c[i] = c[i + 1]
             [] op = "swap" -> Len(c) = Len(Sample) /\ c[i] = Sample[i + 1] /\ c[i + 1] = Sample[i]
             [] op = "truncate" -> Len(c) = i - 1
             [] op = "insert" -> Len(c) = Len(Sample) + 1 /\ c[i] = Stray[x]
             [] op = "flip" -> Len(c) = Len(Sample) /\ c # Sample
             [] op = "dropdefault" -> Len(c) = Len(Sample) - 2
             [] op = "rename" -> Len(c) = Len(Sample) /\ c[i] = "Zzz"
             [] op = "unclose" -> Len(c) = Len(Sample) /\ c[i] = "#include <unterminated"
=============================================================================
