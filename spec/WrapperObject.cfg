SPECIFICATION Spec
CONSTANTS
  Files = {"f1", "f2", "f3", "f4"}
  MaxLen = 3
  Leaks = FALSE
INVARIANT HistoryIndependent
CHECK_DEADLOCK FALSE
