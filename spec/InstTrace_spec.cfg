SPECIFICATION Spec
CONSTANT Mode = "spec"
POSTCONDITION Accepted
CHECK_DEADLOCK FALSE
