------------------------------ MODULE IfaceExh ------------------------------
(***************************************************************************)
(* Exhaustive focused universes for the derivation machine.  TLC explores  *)
(* the complete state graph; every terminal state is one interface file.   *)
(*   "types"   every type expression of the path-exhaustive pool in every  *)
(*             position a type can occupy (one declaration per file)       *)
(*   "sigs"    every signature shape: <= MaxArgs arguments x return shapes *)
(*             x default masks x callable kinds                            *)
(*   "classes" every sequence of <= MaxMembers member kinds x class header *)
(*   "ns"      every nesting of namespaces with <= Target declarations     *)
(***************************************************************************)
EXTENDS IfaceDerive

CONSTANTS Universe, TypeDepth0, MaxArgs, MaxItems, RichArgs   \* RichArgs: instantiate T with templated and numeric arguments too

\* ---------------------------------------------------------------- types
ConstQ == {<<c, q>> : c \in BOOLEAN, q \in Quals}
LeafNames == { <<"double", TRUE>>, <<"unsigned char", TRUE>>, <<"A", FALSE>>, <<"T", FALSE>> }
LeafQns   == { <<"double">>, <<"unsigned char">>, <<"A">>, <<"ns1", "inner", "Pose3">>, <<"T">>, <<"T", "Value">>, <<"T", "Traits", "Tangent">>,
               <<"Tools", "Index">>, <<"ns", "T">> }    \* the last two merely contain the parameter's spelling
IsBasicQn(qn) == Len(qn) = 1 /\ qn[1] \in BasicNames
Sibling == Ty(<<"Key">>, <<>>, FALSE, "", FALSE)
TplQns == { <<"std", "vector">>, <<"Tpl">> }

RECURSIVE TypePool(_)
\* path-exhaustive: along every root-to-leaf path each level takes all 8 const/qualifier combinations;
\* at arity 2 the sibling argument is fixed
TypePool(d) ==
  { Ty(qn, <<>>, cq[1], cq[2], IsBasicQn(qn)) : qn \in LeafQns, cq \in ConstQ }
  \cup
  (IF d = 0 THEN {}
   ELSE { Ty(tq, args, cq[1], cq[2], FALSE) :
            tq \in TplQns, cq \in ConstQ,
            args \in ({ <<a>> : a \in TypePool(d - 1) } \cup { <<a, Sibling>> : a \in TypePool(d - 1) }
                      \cup { <<Sibling, a>> : a \in TypePool(d - 1) }) })

PlainPool == { t \in TypePool(0) : TRUE }
IntT == Ty(<<"int">>, <<>>, FALSE, "", TRUE)
VoidT == Ty(<<"void">>, <<>>, FALSE, "", TRUE)
TmplT == IF RichArgs
         THEN <<TP("T", <<TN(<<"double">>, <<>>), TN(<<"gtsam", "Pose3">>, <<>>),
                          TN(<<"ns", "B">>, <<TN(<<"C">>, <<>>)>>), TN(<<"3">>, <<>>)>>)>>
         ELSE <<TP("T", <<TN(<<"double">>, <<>>), TN(<<"gtsam", "Pose3">>, <<>>)>>)>>

\* the positions a type can occupy in a free declaration; class positions are in TypeClassMembers
\* the full depth is used in argument and return position; the other positions stop one level earlier
Shallow == IF TypeDepth0 > 1 THEN 1 ELSE TypeDepth0
TypeLeaves ==
  LET P == TypePool(Shallow) IN
       { Func("f", TmplT, Ret1(IntT), <<Arg(t, "x", FALSE, "")>>) : t \in TypePool(TypeDepth0) }
  \cup { Func("f", TmplT, Ret1(t), <<>>) : t \in TypePool(TypeDepth0) }
  \cup { Func("f", TmplT, Ret(TRUE, t, IntT, s), <<>>) : t \in PlainPool, s \in BOOLEAN }
  \cup { Func("f", TmplT, Ret(TRUE, IntT, t, s), <<>>) : t \in PlainPool, s \in BOOLEAN }
  \cup { Var(t, "v", FALSE, "") : t \in P }
  \cup { Var(t, "v", TRUE, "Foo(1, 2)") : t \in PlainPool }
  \cup { Typedef(StripQ(t), "Name") : t \in { x \in P : Len(x.args) > 0 } }
  \cup { Func("f", <<TP("T", <<StripQ(t)>>)>>, Ret1(IntT), <<>>) : t \in P }

\* class A takes members; classes named B only vary the base class
TypeClassHdrs ==
  LET P == TypePool(Shallow) IN
       { ClassN("A", TmplT, FALSE, FALSE, NoType, <<>>) }
  \cup { ClassN("B", TmplT, TRUE, TRUE, StripQ(t), <<>>) : t \in { x \in P : ~x.basic } }
TypeClassMembers ==
  LET P == TypePool(Shallow) IN
       { Prop(t, "p", FALSE, "") : t \in P }
  \cup { Method("m", <<>>, Ret1(t), <<Arg(t, "x", FALSE, "")>>, TRUE) : t \in P }
  \cup { Ctor("A", <<>>, <<Arg(IntT, "n", FALSE, ""), Arg(t, "x", FALSE, "")>>) : t \in P }
  \cup { Static("s", <<>>, Ret(TRUE, t, t, FALSE), <<>>) : t \in PlainPool }
  \cup { Oper("()", Ret1(t), <<Arg(t, "x", FALSE, "")>>) : t \in P }
  \cup { Dunder("contains", <<Arg(t, "x", FALSE, "")>>) : t \in P }

\* ---------------------------------------------------------------- signatures
SigTypes == { IntT, Ty(<<"A">>, <<>>, TRUE, "&", FALSE), Ty(<<"ns1", "B">>, <<>>, FALSE, "*", FALSE),
              Ty(<<"std", "vector">>, <<Ty(<<"T">>, <<>>, FALSE, "", FALSE)>>, FALSE, "@", FALSE) }
SigRets == { Ret1(VoidT), Ret1(IntT), Ret1(Ty(<<"A">>, <<>>, TRUE, "&", FALSE)),
             Ret1(Ty(<<"std", "vector">>, <<IntT>>, FALSE, "", FALSE)),
             Ret(TRUE, IntT, Ty(<<"ns1", "B">>, <<>>, FALSE, "*", FALSE), FALSE),
             Ret(TRUE, Ty(<<"A">>, <<>>, TRUE, "&", FALSE), IntT, TRUE) }
ArgNames == <<"x", "y", "z">>
SigArgLists ==
  UNION { { [i \in 1..n |-> Arg(ts[i], ArgNames[i], i > n - nd, IF i > n - nd THEN "Foo(1, 2)" ELSE "")] :
              ts \in [1..n -> SigTypes], nd \in 0..n } : n \in 0..MaxArgs }
SigLeaves ==
  { Func("f", tm, r, a) : tm \in {<<>>, TmplT}, r \in SigRets, a \in SigArgLists }
SigMembers ==
       { Method("m", tm, r, a, c) : tm \in {<<>>, TmplT}, r \in SigRets, a \in SigArgLists, c \in BOOLEAN }
  \cup { Static("s", tm, r, a) : tm \in {<<>>, TmplT}, r \in SigRets, a \in SigArgLists }
  \cup { Ctor("A", tm, a) : tm \in {<<>>, TmplT}, a \in SigArgLists }

\* ---------------------------------------------------------------- class shapes
AT == Ty(<<"A">>, <<>>, FALSE, "", FALSE)
ShapeMembers(n) ==
  \* one representative per member kind (+ templated variants); the name carries the position so that
  \* repeated kinds stay distinguishable
  LET nm(s) == s \o ToString(n) IN
  { Ctor("A", <<>>, <<Arg(IntT, nm("a"), FALSE, "")>>),
    Ctor("A", TmplT, <<Arg(Ty(<<"T">>, <<>>, TRUE, "&", FALSE), nm("a"), FALSE, "")>>),
    Method(nm("m"), <<>>, Ret1(VoidT), <<>>, TRUE),
    Method(nm("m"), TmplT, Ret1(IntT), <<Arg(IntT, "x", TRUE, "0")>>, FALSE),
    Static(nm("s"), <<>>, Ret1(AT), <<>>),
    Prop(IntT, nm("p"), FALSE, ""),
    Oper("+", Ret1(AT), <<Arg(Ty(<<"A">>, <<>>, TRUE, "&", FALSE), "o", FALSE, "")>>),
    Oper("-", Ret1(AT), <<>>),
    Dunder("len", <<>>),
    EnumN(nm("E"), "", <<"X", "Y">>),
    EnumN(nm("E"), "class", <<"X">>) }
ShapeHdrs ==
  { ClassN("A", tm, v, hb[1], hb[2], <<>>) :
      tm \in {<<>>, TmplT, <<TP("T", <<>>), TP("U", <<TN(<<"int">>, <<>>)>>)>>},
      v \in BOOLEAN,
      hb \in { <<FALSE, NoType>>, <<TRUE, TN(<<"ns1", "Base">>, <<>>)>>,
               <<TRUE, TN(<<"Base">>, <<TN(<<"T">>, <<>>)>>)>> } }

\* ---------------------------------------------------------------- namespaces
NsLeaves(n) ==
  LET nm(s) == s \o ToString(n) IN
  { Include("x/" \o nm("h") \o ".h"),
    Fwd(<<"ns1", nm("F")>>, TRUE, TRUE, <<"ns1", "Base">>),
    Typedef(TN(<<"ns1", "Tpl">>, <<TN(<<"A">>, <<>>)>>), nm("Td")),
    Func(nm("f"), <<>>, Ret1(VoidT), <<>>),
    Func(nm("g"), <<>>, Ret1(VoidT), <<Arg(IntT, "x", TRUE, "0"), Arg(IntT, "y", TRUE, "1")>>),
    EnumN(nm("E"), "class", <<"X", "Y">>),
    Var(IntT, nm("v"), TRUE, "1") }

\* ---------------------------------------------------------------- instantiation shapes (C08)
Dbl == TN(<<"double">>, <<>>)
P3  == TN(<<"gtsam", "Pose3">>, <<>>)
BC  == TN(<<"ns", "B">>, <<TN(<<"C">>, <<>>)>>)
N3  == TN(<<"3">>, <<>>)
BCD == TN(<<"ns", "B">>, <<TN(<<"C">>, <<TN(<<"ns2", "D">>, <<>>)>>)>>)      \* an argument nested two levels deep
Sz  == TN(<<"size_t">>, <<>>)
TT  == Ty(<<"T">>, <<>>, FALSE, "", FALSE)
UT  == Ty(<<"U">>, <<>>, TRUE, "&", FALSE)
InstTmpls == { <<TP("T", <<>>)>>, <<TP("T", <<Dbl>>)>>, <<TP("T", <<Dbl, P3, BC>>)>>,
               <<TP("T", <<Dbl, P3>>), TP("U", <<Sz, BC, N3>>)>>, <<TP("T", <<Dbl>>), TP("U", <<>>)>>,
               <<TP("T", <<P3, Dbl>>), TP("U", <<Sz>>), TP("V", <<BC, N3>>)>>,
               <<TP("T", <<Dbl, P3, BC, N3, Sz>>)>>, <<TP("T", <<BCD, BC>>)>> }
FooMembers(tm) ==
  << Ctor("Foo", <<>>, <<Arg(TT, "x", FALSE, "")>>),
     Method("get", <<>>, Ret1(TT), <<Arg(IF Len(tm) > 1 THEN UT ELSE TT, "y", FALSE, "")>>, TRUE),
     Method("tm", <<TP("M", <<Dbl, Sz>>)>>, Ret1(VoidT), <<Arg(Ty(<<"M">>, <<>>, FALSE, "", FALSE), "m", FALSE, ""), Arg(TT, "t", FALSE, "")>>, FALSE),
     Static("Make", <<>>, Ret1(Ty(<<"This">>, <<>>, FALSE, "", FALSE)), <<>>) >>
TdPaths == { <<>>, <<"a">>, <<"a", "b">> }
InstLeaves(n) ==
  LET nm(s) == s \o ToString(n) IN
       { ClassN("Foo", tm, FALSE, FALSE, NoType, FooMembers(tm)) : tm \in InstTmpls }
  \cup { Typedef(TN(p \o <<"Foo">>, a), nm("FooTd")) : p \in TdPaths, a \in { <<P3>>, <<Dbl, BC>> } }
  \cup { Func("fn", tm, Ret1(TT), <<Arg(Ty(<<"std", "vector">>, <<TT>>, TRUE, "&", FALSE), "v", FALSE, "")>>) :
           tm \in { <<TP("T", <<>>)>>, <<TP("T", <<Dbl, BC>>)>>, <<TP("T", <<P3>>), TP("U", <<Sz, N3>>)>> } }
  \cup { Typedef(TN(p \o <<"fn">>, <<P3>>), nm("fnTd")) : p \in { <<>>, <<"a">> } }
  \cup { Fwd(<<"Ext">>, FALSE, FALSE, <<>>), Typedef(TN(<<"Ext">>, <<BC>>), nm("ExtTd")),
         Typedef(TN(<<"a", "Ext">>, <<P3, Dbl>>), nm("ExtTd")) }
  \cup { EnumN(nm("E"), "class", <<"X", "Y">>), Var(IntT, nm("v"), TRUE, "1"), Include("x/" \o nm("h") \o ".h"),
         ClassN(nm("Plain"), <<>>, TRUE, TRUE, TN(<<"a", "Foo">>, <<Dbl>>), <<Method("self", <<>>, Ret1(Ty(<<"This">>, <<>>, FALSE, "*", FALSE)), <<>>, TRUE)>>),
         Func(nm("plainf"), <<>>, Ret1(VoidT), <<Arg(IntT, "i", TRUE, "0")>>) }

\* ---------------------------------------------------------------- choice operators
ExhNsChoices(ctx) ==
  IF Universe = "ns" THEN {"a", "ab"} ELSE IF Universe = "inst" /\ ctx.nitems < MaxItems THEN (IF ctx.nspath = <<>> THEN {"a"} ELSE {"b"}) ELSE {}
ExhClassChoices(ctx) ==
  CASE Universe = "types"   -> IF ctx.cnt = 0 THEN TypeClassHdrs ELSE {}
    [] Universe = "sigs"    -> IF ctx.cnt = 0 THEN {ClassN("A", <<>>, FALSE, FALSE, NoType, <<>>)} ELSE {}
    [] Universe = "classes" -> IF ctx.cnt = 0 THEN ShapeHdrs ELSE {}
    [] Universe = "ns"      -> {ClassN("A" \o ToString(ctx.cnt), <<>>, FALSE, FALSE, NoType, <<>>)}
    [] Universe = "inst"    -> {}
ExhMemberChoices(ctx) ==
  CASE Universe = "types"   -> IF ctx.nmembers = 0 /\ ctx.cls = "A" THEN TypeClassMembers ELSE {}
    [] Universe = "sigs"    -> IF ctx.nmembers = 0 THEN SigMembers ELSE {}
    [] Universe = "classes" -> ShapeMembers(ctx.nmembers)
    [] Universe = "ns"      -> IF ctx.nmembers = 0
                               THEN {Prop(IntT, "p", FALSE, ""), Method("print", <<>>, Ret1(VoidT), <<>>, TRUE)} ELSE {}
    [] Universe = "inst"    -> {}
ExhLeafChoices(ctx) ==
  CASE Universe = "types"   -> IF ctx.cnt = 0 THEN TypeLeaves ELSE {}
    [] Universe = "sigs"    -> IF ctx.cnt = 0 THEN SigLeaves ELSE {}
    [] Universe = "classes" -> {}
    [] Universe = "ns"      -> NsLeaves(ctx.cnt)
    [] Universe = "inst"    -> IF ctx.nitems < MaxItems THEN InstLeaves(ctx.nitems) ELSE {}

\* every type of the pool is well formed, and its typename view renders to the same tokens minus qualifiers
ASSUME \A t \in TypePool(1) : WellFormedType(t)
=============================================================================
