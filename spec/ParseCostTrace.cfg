SPECIFICATION Spec
CONSTANTS
  MaxD = 12
  Alts = 3
POSTCONDITION Accepted
CHECK_DEADLOCK FALSE
