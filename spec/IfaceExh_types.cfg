SPECIFICATION Spec
CONSTANTS
  NsChoices <- ExhNsChoices
  ClassChoices <- ExhClassChoices
  MemberChoices <- ExhMemberChoices
  LeafChoices <- ExhLeafChoices
  Universe = "types"
  TypeDepth0 = 1
  RichArgs = FALSE
  MaxItems = 3
  MaxArgs = 2
  Target = 2
  MinDecls = 1
  MaxNsDepth = 3
  MaxMembers = 1
INVARIANT InvRender
INVARIANT InvCount
INVARIANT InvShape
INVARIANT InvClosed
CHECK_DEADLOCK FALSE
