----------------------------- MODULE DocString -----------------------------
(***************************************************************************)
(* C17.  Two mechanisms.                                                   *)
(*                                                                         *)
(* (1) Lookup machine.  State: `memory`, the per-key overload counter of   *)
(*     the XML parser object.  Lookup(cls, method, argnames) selects the   *)
(*     member of the Doxygen model whose class, name and parameter names   *)
(*     match (required or total arity); overloads with identical parameter *)
(*     names are told apart by the order of the calls.  Missing index /    *)
(*     class / file, malformed XML, no match: the empty docstring, never   *)
(*     an error.                                                           *)
(*                                                                         *)
(* (2) Literal.  Embed(t) is the text put between the quotes of the C++    *)
(*     string literal (a transcription of                                  *)
(*       repr(t)[1:-1].replace('"', r'\"')   of pybind_wrapper.py),         *)
(*     Decode(s) what a C++17 compiler makes of it.  The property is       *)
(*     Decode(Embed(t)) = t for every text t.  Texts are sequences of code *)
(*     points (integers); a byte that is not valid UTF-8 on its own is the *)
(*     unit [byte |-> n].                                                  *)
(***************************************************************************)
EXTENDS Naturals, Sequences, FiniteSets, TLC

---------------------------------------------------------------------------
\* (2) the literal
QUOTE == 34  APOS == 39  BSL == 92  LF == 10  TAB == 9  CR == 13
Alphabet == {34, 39, 92, 10, 9, 127, 97, 102, 48, 63, 233, 133, 8232, 128512, 120}   \* all are valid XML characters
\* Python's str.isprintable for the alphabet (U+0085 and U+2028 are not printable; U+00E9 and U+1F600 are)
Printable(c) == c \in {34, 39, 92, 97, 102, 48, 63, 233, 128512, 120}
HexDigits == <<48, 49, 50, 51, 52, 53, 54, 55, 56, 57, 97, 98, 99, 100, 101, 102>>   \* '0'..'9','a'..'f'
RECURSIVE HexOf(_, _)
\* n as `width` lower-case hex digits (code points)
HexOf(n, width) == IF width = 0 THEN <<>> ELSE HexOf(n \div 16, width - 1) \o <<HexDigits[(n % 16) + 1]>>
HexVal(c) == IF c >= 48 /\ c <= 57 THEN c - 48
             ELSE IF c >= 97 /\ c <= 102 THEN c - 87
             ELSE IF c >= 65 /\ c <= 70 THEN c - 55 ELSE 99        \* 99 = not a hex digit
IsHex(c) == HexVal(c) < 16

Has(t, c) == \E i \in 1..Len(t) : t[i] = c
\* the quote character Python's repr chooses
ReprQuote(t) == IF Has(t, APOS) /\ ~Has(t, QUOTE) THEN QUOTE ELSE APOS

ReprChar(c, q) ==
  IF c = q \/ c = BSL THEN <<BSL, c>>
  ELSE IF c = TAB THEN <<BSL, 116>>
  ELSE IF c = LF THEN <<BSL, 110>>
  ELSE IF c = CR THEN <<BSL, 114>>
  ELSE IF c < 32 \/ c = 127 THEN <<BSL, 120>> \o HexOf(c, 2)
  ELSE IF c < 127 THEN <<c>>
  ELSE IF Printable(c) THEN <<c>>
  ELSE IF c <= 255 THEN <<BSL, 120>> \o HexOf(c, 2)
  ELSE IF c <= 65535 THEN <<BSL, 117>> \o HexOf(c, 4)
  ELSE <<BSL, 85>> \o HexOf(c, 8)

RECURSIVE Concat(_)
Concat(ss) == IF ss = <<>> THEN <<>> ELSE Head(ss) \o Concat(Tail(ss))
ReprInner(t) == Concat([i \in 1..Len(t) |-> ReprChar(t[i], ReprQuote(t))])
\* the literal of the pinned tree: repr(t)[1:-1].replace('"', r'\"')   (replaced by Embed below, see known_findings)
EmbedRepr(t) == LET r == ReprInner(t) IN Concat([i \in 1..Len(r) |-> IF r[i] = QUOTE THEN <<BSL, QUOTE>> ELSE <<r[i]>>])

\* UTF-8 encoding of a code point, as a sequence of bytes
Utf8Char(c) ==
  IF c < 128 THEN <<c>>
  ELSE IF c < 2048 THEN <<192 + (c \div 64), 128 + (c % 64)>>
  ELSE IF c < 65536 THEN <<224 + (c \div 4096), 128 + ((c \div 64) % 64), 128 + (c % 64)>>
  ELSE <<240 + (c \div 262144), 128 + ((c \div 4096) % 64), 128 + ((c \div 64) % 64), 128 + (c % 64)>>
Utf8(t) == Concat([i \in 1..Len(t) |-> Utf8Char(t[i])])
Octal3(b) == <<BSL, 48 + (b \div 64), 48 + ((b \div 8) % 8), 48 + (b % 8)>>

\* the literal of PybindWrapper._cpp_string_literal: backslash, quote, newline, tab, carriage return escaped,
\* printable ASCII kept, everything else as 3-digit octal escapes of its UTF-8 bytes
EmbedChar(c) ==
  IF c = BSL THEN <<BSL, BSL>>
  ELSE IF c = QUOTE THEN <<BSL, QUOTE>>
  ELSE IF c = LF THEN <<BSL, 110>>
  ELSE IF c = TAB THEN <<BSL, 116>>
  ELSE IF c = CR THEN <<BSL, 114>>
  ELSE IF c >= 32 /\ c <= 126 THEN <<c>>
  ELSE Concat([i \in 1..Len(Utf8Char(c)) |-> Octal3(Utf8Char(c)[i])])
Embed(t) == Concat([i \in 1..Len(t) |-> EmbedChar(t[i])])

\* C++17 decoding of the characters between the quotes of an ordinary string literal, as BYTES of the
\* (UTF-8) execution character set; ErrUnit marks an ill-formed escape
ErrUnit == 0 - 9999999
IsOct(c) == c >= 48 /\ c <= 55
RECURSIVE HexRun(_, _, _)
\* greedy: consume all following hex digits; -> <<value, next index>>
HexRun(s, i, acc) == IF i <= Len(s) /\ IsHex(s[i]) THEN HexRun(s, i + 1, (acc * 16 + HexVal(s[i])) % 1114112)
                     ELSE <<acc, i>>
RECURSIVE OctRun(_, _, _, _)
\* at most three octal digits
OctRun(s, i, k, acc) == IF k > 0 /\ i <= Len(s) /\ IsOct(s[i]) THEN OctRun(s, i + 1, k - 1, acc * 8 + (s[i] - 48))
                        ELSE <<acc, i>>
RECURSIVE FixedHex(_, _, _, _)
FixedHex(s, i, k, acc) == IF k = 0 THEN <<acc, i>>
                          ELSE IF i <= Len(s) /\ IsHex(s[i]) THEN FixedHex(s, i + 1, k - 1, acc * 16 + HexVal(s[i]))
                          ELSE <<0, 0>>                  \* ill-formed
RECURSIVE DecodeFrom(_, _)
DecodeFrom(s, i) ==
  IF i > Len(s) THEN <<>>
  ELSE IF s[i] # BSL THEN Utf8Char(s[i]) \o DecodeFrom(s, i + 1)
  ELSE IF i = Len(s) THEN <<ErrUnit>>
  ELSE LET e == s[i + 1] IN
       IF e = 110 THEN <<LF>> \o DecodeFrom(s, i + 2)
       ELSE IF e = 116 THEN <<TAB>> \o DecodeFrom(s, i + 2)
       ELSE IF e = 114 THEN <<CR>> \o DecodeFrom(s, i + 2)
       ELSE IF e \in {BSL, APOS, QUOTE, 63} THEN <<e>> \o DecodeFrom(s, i + 2)
       ELSE IF IsOct(e) THEN LET r == OctRun(s, i + 1, 3, 0) IN <<r[1] % 256>> \o DecodeFrom(s, r[2])
       ELSE IF e = 120 THEN LET r == HexRun(s, i + 2, 0) IN
                            IF r[2] = i + 2 THEN <<ErrUnit>>
                            ELSE <<r[1] % 256>> \o DecodeFrom(s, r[2])
       ELSE IF e = 117 THEN LET r == FixedHex(s, i + 2, 4, 0) IN
                            IF r[2] = 0 THEN <<ErrUnit>> ELSE Utf8Char(r[1]) \o DecodeFrom(s, r[2])
       ELSE IF e = 85 THEN LET r == FixedHex(s, i + 2, 8, 0) IN
                           IF r[2] = 0 THEN <<ErrUnit>> ELSE Utf8Char(r[1]) \o DecodeFrom(s, r[2])
       ELSE <<ErrUnit>>
Decode(s) == DecodeFrom(s, 1)

\* the property: the compiler reproduces the UTF-8 encoding of the text
RoundTrips(t) == Decode(Embed(t)) = Utf8(t)
\* the same for the pinned tree's repr-based literal
RoundTripsRepr(t) == Decode(EmbedRepr(t)) = Utf8(t)

\* analysed deviations of the repr-based literal (repaired, see known_findings.json): exactly these texts did not round-trip
HexThenHexDigit(t) == \E i \in 1..(Len(t) - 1) : (t[i] < 32 \/ t[i] = 127 \/ (t[i] > 127 /\ t[i] <= 255 /\ ~Printable(t[i])))
                                                  /\ t[i] \notin {TAB, LF, CR} /\ IsHex(t[i + 1])
Latin1NonPrintable(t) == \E i \in 1..Len(t) : t[i] > 127 /\ t[i] <= 255 /\ ~Printable(t[i])
KnownBad(t) == HexThenHexDigit(t) \/ Latin1NonPrintable(t)

RECURSIVE Texts(_)
Texts(n) == IF n = 0 THEN {<<>>} ELSE Texts(n - 1) \cup {Append(t, c) : t \in {x \in Texts(n - 1) : Len(x) = n - 1}, c \in Alphabet}

---------------------------------------------------------------------------
\* (1) the lookup machine
\* Doxygen model: [index : {"ok","missing","malformed"}, hasclass : BOOLEAN, classfile : {"ok","missing","malformed"},
\*                 members : Seq([name, params : Seq([decl : STRING, defval : BOOLEAN]), doc : STRING])]
Required(m) == Cardinality({i \in 1..Len(m.params) : ~m.params[i].defval})
Matches(m, method, argnames) ==
  /\ m.name = method
  /\ Len(argnames) \in {Required(m), Len(m.params)}
  /\ \A i \in 1..Len(argnames) : m.params[i].decl # "" /\ m.params[i].decl = argnames[i]
Candidates(xml, method, argnames) ==
  IF xml.index # "ok" \/ ~xml.hasclass \/ xml.classfile # "ok" THEN <<>>
  ELSE SelectSeq(xml.members, LAMBDA m : Matches(m, method, argnames))

Key(cls, method, argnames) == <<cls, method, argnames>>

\* one lookup: -> [doc, memory']   (memory : function from keys to the number of lookups already served)
Lookup(memory, xml, cls, method, argnames) ==
  LET cands == Candidates(xml, method, argnames)
      key == Key(cls, method, argnames)
      served == IF key \in DOMAIN memory THEN memory[key] ELSE 0
  IN IF Len(cands) = 0 THEN [doc |-> "", memory |-> memory]
     ELSE IF Len(cands) = 1 THEN [doc |-> cands[1].doc, memory |-> memory]
     ELSE [doc |-> IF served + 1 <= Len(cands) THEN cands[served + 1].doc ELSE "",
           memory |-> [k \in DOMAIN memory \cup {key} |-> IF k = key THEN served + 1 ELSE memory[k]]]

RECURSIVE DocsFrom(_, _, _, _)
\* the docstrings of a sequence of method bindings wrapped in order, starting from `memory`
DocsFrom(memory, xml, cls, calls) ==
  IF calls = <<>> THEN <<>>
  ELSE LET r == Lookup(memory, xml, cls, Head(calls).name, Head(calls).args) IN
       <<r.doc>> \o DocsFrom(r.memory, xml, cls, Tail(calls))
\* every wrap_file call starts from an empty memory (the result of a call depends on its inputs only)
Docs(xml, cls, calls) == DocsFrom(<<>>, xml, cls, calls)
=============================================================================
