------------------------------ MODULE Compose ------------------------------
(***************************************************************************)
(* C16: composition of several interface files and of the command line.    *)
(*   Splits(cst)     ways of distributing the top-level declarations of a  *)
(*                   module over 2..4 files, at declaration boundaries     *)
(*   Python:  the main file's unit declares and invokes one initialiser    *)
(*            per additional file, in order; the unit of an additional     *)
(*            file defines exactly that initialiser and registers exactly  *)
(*            what wrapping its text alone registers                       *)
(*   MATLAB:  Toolbox(files f1..fk) = Toolbox(one file holding f1 ... fk)  *)
(*   scripts: Script(options) = API(OptionsOf(options))                    *)
(***************************************************************************)
EXTENDS Iface

RECURSIVE JoinStr(_, _)
JoinStr(ss, sep) == IF Len(ss) = 0 THEN "" ELSE IF Len(ss) = 1 THEN ss[1] ELSE ss[1] \o sep \o JoinStr(Tail(ss), sep)

\* parts of `items` for an increasing sequence of cut positions (a cut at i separates items i and i+1)
Parts(items, cuts) ==
  LET bounds == <<0>> \o cuts \o <<Len(items)>> IN
  [k \in 1..(Len(bounds) - 1) |-> SubSeq(items, bounds[k] + 1, bounds[k + 1])]

\* the cut sets tried, as a sequence: every single cut; first + last; all cuts (small modules); three cuts (larger ones)
CutSeq(n) ==
  IF n < 2 THEN <<>>
  ELSE [i \in 1..(n - 1) |-> <<i>>]
       \o (IF n >= 3 THEN << <<1, n - 1>> >> ELSE <<>>)
       \o (IF n >= 3 /\ n <= 4 THEN << [i \in 1..(n - 1) |-> i] >> ELSE <<>>)
       \o (IF n >= 5 THEN << <<1, 2, n - 1>> >> ELSE <<>>)

Splits(cst) ==
  LET cs == CutSeq(Len(cst)) IN
  [k \in 1..Len(cs) |-> [cuts |-> cs[k],
                         parts |-> [p \in 1..Len(Parts(cst, cs[k])) |-> RenderItems(Parts(cst, cs[k])[p])]]]

\* what the main unit must contain for additional files with these stems (module-level part of PyBind)
SubmodDecls(stems) == [i \in 1..Len(stems) |-> "void " \o stems[i] \o "(py::module_ &);"]
SubmodInits(stems) == [i \in 1..Len(stems) |-> stems[i] \o "(m_);"]
MainDef(name) == "PYBIND11_MODULE(" \o name \o ", m_)"
SubDef(stem) == "void " \o stem \o "(py::module_ &m_)"

\* command line <-> API:  --top_module_namespaces a::b  <->  top_module_namespaces = <<"", "a", "b">>;  ""  <->  <<"">>
TopOption(top) == JoinStr(top, "::")
ApiTop(top) == <<"">> \o top

\* the splitting law on the specification side: concatenating the parts gives the module back
LawSplit(cst) == \A k \in 1..Len(Splits(cst)) : FlatSeq(Splits(cst)[k].parts) = RenderItems(cst)
=============================================================================
