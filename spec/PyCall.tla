------------------------------- MODULE PyCall -------------------------------
(***************************************************************************)
(* C04, executed half: what CALLING the generated bindings must do.        *)
(*                                                                         *)
(* A Python session over a generated module is a sequence of steps         *)
(*    new      construct an object through a constructor binding           *)
(*    method / static / func   call a binding (positional, keywords in     *)
(*             reversed order, trailing defaults omitted)                  *)
(*    getprop / setprop / enum / attr / subclass / repr                    *)
(* against a conforming library that logs "<entity>(<values>)" for every   *)
(* entity that runs (harness/cpplib.py) and numbers the objects built by   *)
(* constructor bindings 1, 2, ... (copies keep the number).                *)
(* Plan(inst) is the session this specification prescribes for a module    *)
(* together with, per step, the log the library must show and the kind of  *)
(* result Python must see: the declared entity (class / namespace, member, *)
(* explicit template arguments), the argument values in DECLARED order     *)
(* whatever order the keywords were given in, the DECLARED default for an  *)
(* omitted argument, self first for instance calls and absent for static   *)
(* ones, None for void.  The harness executes the plan on the real module  *)
(* (pyexec / pydriver) and compares step by step.                          *)
(* Types are classified through Lex.st (C++ spelling -> structure).        *)
(***************************************************************************)
EXTENDS PyBind

BasicKinds == {"int", "size_t", "double", "float", "bool", "char", "unsigned char", "string"}
St(cpp) == Lex.st[cpp]
BaseName(st) == CppSpelling([st EXCEPT !.const = FALSE, !.q = ""])

\* registered classes of the module: [cpp, path (python attribute path), c]
RECURSIVE Classes(_, _)
Classes(items, nspath) ==
  FlatSeq([i \in 1..Len(items) |->
     CASE items[i].k = "namespace" -> Classes(items[i].items, nspath \o <<items[i].name>>)
       [] items[i].k = "class" -> << [cpp |-> items[i].cpp, path |-> nspath \o <<items[i].name>>, c |-> items[i]] >>
       [] OTHER -> <<>>])

Find(cl, cpp) == IF \E i \in 1..Len(cl) : cl[i].cpp = cpp THEN CHOOSE i \in 1..Len(cl) : cl[i].cpp = cpp ELSE 0

Kind(t, cl) ==
  LET st == St(t.cpp) IN
  IF Len(st.args) = 0 /\ Len(st.qn) = 1 /\ st.qn[1] \in BasicKinds THEN st.qn[1]
  ELSE IF Find(cl, BaseName(st)) # 0 THEN "class" ELSE "other"

\* the i-th argument's value, as Python writes it and as the library prints it
Chars == << "'b'", "'c'", "'d'", "'e'", "'f'", "'g'" >>
CharCodes == << "98", "99", "100", "101", "102", "103" >>
PyVal(kind, i) ==
  CASE kind = "int" -> ToString(10 + i) [] kind = "size_t" -> ToString(20 + i) [] kind = "unsigned char" -> ToString(30 + i)
    [] kind = "double" -> ToString(i) \o ".5" [] kind = "float" -> ToString(i) \o ".25"
    [] kind = "bool" -> (IF i % 2 = 1 THEN "True" ELSE "False")
    [] kind = "char" -> Chars[i] [] kind = "string" -> "'s" \o ToString(i) \o "'"
LogVal(kind, i) ==
  CASE kind = "int" -> ToString(10 + i) [] kind = "size_t" -> ToString(20 + i) [] kind = "unsigned char" -> ToString(30 + i)
    [] kind = "double" -> ToString(i) \o ".5" [] kind = "float" -> ToString(i) \o ".25"
    [] kind = "bool" -> (IF i % 2 = 1 THEN "1" ELSE "0")
    [] kind = "char" -> CharCodes[i] [] kind = "string" -> "s" \o ToString(i)
\* what the library prints for a declared default (the literals of the 'call' profile)
DefaultLog(def) ==
  CASE def = "2.5f" -> "2.5" [] def = "true" -> "1" [] def = "false" -> "0" [] def = "'c'" -> "99" [] OTHER -> def
DefaultPy(def) ==
  CASE def = "2.5f" -> "2.5" [] def = "true" -> "True" [] def = "false" -> "False" [] OTHER -> def
\* a value of the kind that was never set
ZeroPy(kind) ==
  CASE kind \in {"int", "size_t", "unsigned char"} -> "0" [] kind \in {"double", "float"} -> "0.0" [] kind = "bool" -> "False"
    [] kind = "char" -> "'\\x00'" [] kind = "string" -> "''"
RetKind(kind) ==
  CASE kind \in {"int", "size_t", "unsigned char"} -> "int" [] kind \in {"double", "float"} -> "float" [] kind = "bool" -> "bool"
    [] kind \in {"char", "string"} -> "str"

\* name = the Python attribute, mname = the declared (instantiated) name, which MATLAB uses unchanged
CallStepK(op, path, name, mname, on, var, pos, kw, log, ret, exc, kinds) ==
  [op |-> op, path |-> path, name |-> name, mname |-> mname, on |-> on, var |-> var, pos |-> pos, kw |-> kw, log |-> log, ret |-> ret, exc |-> exc,
   kinds |-> kinds]      \* (kinds: "<kind>", "<kind>&" for a reference, or "class:<C++ spelling>" per supplied parameter)      \* kinds of the parameters that receive the positional arguments (for the classification of known findings)
CallStepM(op, path, name, mname, on, var, pos, kw, log, ret, exc) == CallStepK(op, path, name, mname, on, var, pos, kw, log, ret, exc, <<>>)
CallStep(op, path, name, on, var, pos, kw, log, ret, exc) == CallStepM(op, path, name, name, on, var, pos, kw, log, ret, exc)
NoKw == <<>>

\* the first constructor of a class all of whose parameters are basic (0 = none)
SimpleCtor(c, cl) ==
  IF \E i \in 1..Len(c.ctors) : \A j \in 1..Len(c.ctors[i].args) : Kind(c.ctors[i].args[j].t, cl) \in BasicKinds /\ Len(c.ctors[i].args) <= 6
  THEN CHOOSE i \in 1..Len(c.ctors) : /\ \A j \in 1..Len(c.ctors[i].args) : Kind(c.ctors[i].args[j].t, cl) \in BasicKinds /\ Len(c.ctors[i].args) <= 6
                                      /\ \A i2 \in 1..(i - 1) : ~(\A j \in 1..Len(c.ctors[i2].args) : Kind(c.ctors[i2].args[j].t, cl) \in BasicKinds /\ Len(c.ctors[i2].args) <= 6)
  ELSE 0
Constructible(cr, cl) == SimpleCtor(cr.c, cl) # 0

\* construct an object of registered class cr into variable var; it becomes object number id
NewObj(cr, cl, var, id) ==
  LET a == cr.c.ctors[SimpleCtor(cr.c, cl)].args IN
  CallStep("new", cr.path, "", "", var, [j \in 1..Len(a) |-> PyVal(Kind(a[j].t, cl), j)], NoKw,
       << cr.cpp \o "::<init>(" \o JoinStr([j \in 1..Len(a) |-> LogVal(Kind(a[j].t, cl), j)], ",") \o ")" >>, "obj:" \o JoinStr(cr.path, "."), "")

\* can every parameter be supplied?
Suppliable(args, cl) ==
  /\ Len(args) <= 6
  /\ \A j \in 1..Len(args) : LET k == Kind(args[j].t, cl) IN
        k \in BasicKinds \/ (k = "class" /\ Constructible(cl[Find(cl, BaseName(St(args[j].t.cpp)))], cl))

\* the objects needed as arguments (variables a1, a2, ..), numbered from id + 1 in parameter order
RECURSIVE ArgObjs(_, _, _, _)
ArgObjs(args, cl, j, id) ==
  IF j > Len(args) THEN <<>>
  ELSE IF Kind(args[j].t, cl) = "class"
  THEN << [j |-> j, id |-> id + 1, step |-> NewObj(cl[Find(cl, BaseName(St(args[j].t.cpp)))], cl, "a" \o ToString(j), id + 1)] >>
       \o ArgObjs(args, cl, j + 1, id + 1)
  ELSE ArgObjs(args, cl, j + 1, id)
ObjId(objs, j) == (CHOOSE x \in {objs[i] : i \in 1..Len(objs)} : x.j = j).id
ArgPy(args, cl, j) == LET k == Kind(args[j].t, cl) IN IF k = "class" THEN "$a" \o ToString(j) ELSE PyVal(k, j)
ArgLog(args, cl, objs, j) == LET k == Kind(args[j].t, cl) IN IF k = "class" THEN "obj" \o ToString(ObjId(objs, j)) ELSE LogVal(k, j)

NDefaults(args) == Cardinality({j \in 1..Len(args) : args[j].hasdef})
\* the three calling styles of one binding: positional / keywords reversed / trailing defaults omitted
\* pre = values printed before the arguments (self), entity = what the library must name
Calls(op, path, name, mname, on, args, cl, objs, entity, pre, ret) ==
  LET n == Len(args)
      nd == NDefaults(args)
      \* the log when the last j arguments are left to their declared defaults
      logOmit(j) == entity \o "(" \o JoinStr(pre \o [i \in 1..n |-> IF i > n - j THEN DefaultLog(args[i].def) ELSE ArgLog(args, cl, objs, i)], ",") \o ")"
      kinds(m) == [i \in 1..m |-> IF Kind(args[i].t, cl) = "class" THEN "class:" \o BaseName(St(args[i].t.cpp))
                                   ELSE Kind(args[i].t, cl) \o (IF args[i].t.q = "&" THEN "&" ELSE "")]
  IN << CallStepK(op, path, name, mname, on, "", [j \in 1..n |-> ArgPy(args, cl, j)], NoKw, <<logOmit(0)>>, ret, "", kinds(n)) >>
     \o (IF n >= 1 THEN << CallStepK(op, path, name, mname, on, "", <<>>, [j \in 1..n |-> [name |-> args[n + 1 - j].name, value |-> ArgPy(args, cl, n + 1 - j)]], <<logOmit(0)>>, ret, "", kinds(n)) >> ELSE <<>>)
     \* every arity n-1 .. n-nd (C06: the toolbox offers exactly the arities n .. n-k)
     \o [j \in 1..nd |-> CallStepK(op, path, name, mname, on, "", [i \in 1..(n - j) |-> ArgPy(args, cl, i)], NoKw, <<logOmit(j)>>, ret, "", kinds(n - j))]

\* the C++ spellings of the classes a result hands back (for the classification of known findings)
RetCpps(r, cl) ==
  LET one(t) == IF t.cpp # "" /\ t.cpp # "void" /\ Kind(t, cl) = "class" THEN << BaseName(St(t.cpp)) >> ELSE <<>>
  IN one(r.t1) \o (IF r.pair THEN one(r.t2) ELSE <<>>)
WithRetCpp(steps, r, cl) == [i \in 1..Len(steps) |-> steps[i] @@ [retcpp |-> RetCpps(r, cl)]]
RetOf(r, cl) ==
  IF r.pair THEN (IF Kind(r.t1, cl) # "other" /\ Kind(r.t2, cl) # "other" THEN "tuple" ELSE "any")   \* (a type Python does not know cannot come back)
  ELSE IF r.t1.cpp = "void" THEN "none"
  ELSE LET k == Kind(r.t1, cl) IN
       IF k \in BasicKinds THEN RetKind(k)
       ELSE IF k = "class" THEN "obj:" \o JoinStr(cl[Find(cl, BaseName(St(r.t1.cpp)))].path, ".")
       ELSE "any"

\* ---- the session for one class; `id` = number of objects constructed so far.  Returns [steps, id]
Acc(steps, id) == [steps |-> steps, id |-> id]
Cat(a, steps, id) == [steps |-> a.steps \o steps, id |-> id]

CtorPart(cr, cl, i, id) ==
  LET a == cr.c.ctors[i].args IN
  IF ~Suppliable(a, cl) THEN Acc(<<>>, id)
  ELSE LET objs == ArgObjs(a, cl, 1, id)
           id1 == id + Len(objs)
           n == Len(a)
           nd == NDefaults(a)
           ent == cr.cpp \o "::<init>"
           logOmit(j) == ent \o "(" \o JoinStr([q \in 1..n |-> IF q > n - j THEN DefaultLog(a[q].def) ELSE ArgLog(a, cl, objs, q)], ",") \o ")"
           ret == "obj:" \o JoinStr(cr.path, ".")
           kinds(m) == [q \in 1..m |-> IF Kind(a[q].t, cl) = "class" THEN "class:" \o BaseName(St(a[q].t.cpp))
                                       ELSE Kind(a[q].t, cl) \o (IF a[q].t.q = "&" THEN "&" ELSE "")]
       IN Acc([k \in 1..Len(objs) |-> objs[k].step]
              \o << CallStepK("new", cr.path, "", "", "", "c", [j \in 1..n |-> ArgPy(a, cl, j)], NoKw, <<logOmit(0)>>, ret, "", kinds(n)) >>
              \o (IF n >= 1 THEN << CallStepK("new", cr.path, "", "", "", "c", <<>>, [j \in 1..n |-> [name |-> a[n + 1 - j].name, value |-> ArgPy(a, cl, n + 1 - j)]], <<logOmit(0)>>, ret, "", kinds(n)) >> ELSE <<>>)
              \o [j \in 1..nd |-> CallStepK("new", cr.path, "", "", "", "c", [q \in 1..(n - j) |-> ArgPy(a, cl, q)], NoKw, <<logOmit(j)>>, ret, "", kinds(n - j))],
              id1 + 1 + (IF n >= 1 THEN 1 ELSE 0) + nd)

\* cr declares the member; the receiver is an object of selfcr (cr itself, or a class derived from it)
MethodPartOn(selfcr, cr, cl, m, static, id) ==
  IF ~Suppliable(m.args, cl) \/ (~static /\ ~Constructible(selfcr, cl)) \/ m.cpp \in {"serialize", "serializable"} THEN Acc(<<>>, id)
  ELSE LET selfid == id + 1
           id0 == IF static THEN id ELSE selfid
           objs == ArgObjs(m.args, cl, 1, id0)
           pyname == MethodPyName(m.name, m.cpp)
           ent == cr.cpp \o "::" \o m.cpp
       IN Acc((IF static THEN <<>> ELSE << NewObj(selfcr, cl, "self", selfid) >>)
              \o [k \in 1..Len(objs) |-> objs[k].step]
              \o WithRetCpp(Calls(IF static THEN "static" ELSE "method", selfcr.path, pyname, m.name, IF static THEN "" ELSE "self", m.args, cl, objs, ent,
                                  IF static THEN <<>> ELSE << "obj" \o ToString(selfid) >>, RetOf(m.ret, cl)), m.ret, cl)
              \o (IF ~static /\ m.name = "print" /\ Len(m.args) = 0 /\ selfcr = cr
                  THEN << CallStep("repr", cr.path, "", "self", "", <<>>, NoKw, << ent \o "(obj" \o ToString(selfid) \o ")" >>, "val:'printed'", "") >> ELSE <<>>),
              id0 + Len(objs))

MethodPart(cr, cl, m, static, id) == MethodPartOn(cr, cr, cl, m, static, id)

\* operators: -a, a + b, a += b, a == b ..., a(x), a[x]; the library names the entity `<class>::operator<symbol>`
OpPart(cr, cl, o, id) ==
  IF ~Constructible(cr, cl) THEN Acc(<<>>, id)
  ELSE LET ent == cr.cpp \o "::operator" \o o.op
           selfid == id + 1
       IN IF o.op \in {"()", "[]"}
          THEN IF ~Suppliable(o.args, cl) THEN Acc(<<>>, id)
               ELSE LET objs == ArgObjs(o.args, cl, 1, selfid) IN
                    Acc(<< NewObj(cr, cl, "self", selfid) >> \o [k \in 1..Len(objs) |-> objs[k].step]
                        \o << CallStep("method", cr.path, IF o.op = "()" THEN "__call__" ELSE "__getitem__", "self", "",
                                        [j \in 1..Len(o.args) |-> ArgPy(o.args, cl, j)], NoKw,
                                        << ent \o "(" \o JoinStr(<< "obj" \o ToString(selfid) >> \o [j \in 1..Len(o.args) |-> ArgLog(o.args, cl, objs, j)], ",") \o ")" >>,
                                        RetOf(o.ret, cl), "") >>,
                        selfid + Len(objs))
          ELSE IF Len(o.args) = 0
          THEN Acc(<< NewObj(cr, cl, "self", selfid),
                      CallStep("unop", cr.path, o.op, "self", "", <<>>, NoKw, << ent \o "(obj" \o ToString(selfid) \o ")" >>, RetOf(o.ret, cl), "") >>, selfid)
          ELSE IF Len(o.args) = 1 /\ Kind(o.args[1].t, cl) = "class" /\ BaseName(St(o.args[1].t.cpp)) = cr.cpp
          THEN Acc(<< NewObj(cr, cl, "self", selfid), NewObj(cr, cl, "a1", selfid + 1),
                      CallStep("binop", cr.path, o.op, "self", "", <<"$a1">>, NoKw,
                               << ent \o "(obj" \o ToString(selfid) \o ",obj" \o ToString(selfid + 1) \o ")" >>, RetOf(o.ret, cl), "") >>, selfid + 1)
          ELSE Acc(<<>>, id)

PropPart(cr, cl, p, id) ==
  IF ~Constructible(cr, cl) THEN Acc(<<>>, id)
  ELSE LET k == Kind(p.t, cl)
           get(v) == CallStep("getprop", cr.path, p.name, "self", "", <<>>, NoKw, <<>>, v, "")
       IN IF k \in BasicKinds /\ p.t.q = ""
          THEN Acc(<< NewObj(cr, cl, "self", id + 1), get("val:" \o ZeroPy(k)) >>
                   \o (IF p.t.const
                       THEN << CallStep("setprop", cr.path, p.name, "self", "", <<PyVal(k, 1)>>, NoKw, <<>>, "none", "AttributeError"), get("val:" \o ZeroPy(k)) >>
                       ELSE << CallStep("setprop", cr.path, p.name, "self", "", <<PyVal(k, 1)>>, NoKw, <<>>, "none", ""), get("val:" \o PyVal(k, 1)) >>),
                   id + 1)
          ELSE IF k = "class" /\ p.t.q = ""
          THEN Acc(<< NewObj(cr, cl, "self", id + 1), get("obj:" \o JoinStr(cl[Find(cl, BaseName(St(p.t.cpp)))].path, ".")) >>, id + 1)
          ELSE Acc(<<>>, id)

RECURSIVE FoldParts(_, _, _)
\* parts: sequence of operators is not possible in TLA+; instead fold over a sequence of descriptors
PartOf(cr, cl, d, id) ==
  CASE d.kind = "ctor" -> CtorPart(cr, cl, d.i, id)
    [] d.kind = "method" -> MethodPart(cr, cl, cr.c.methods[d.i], FALSE, id)
    [] d.kind = "static" -> MethodPart(cr, cl, cr.c.statics[d.i], TRUE, id)
    [] d.kind = "prop" -> PropPart(cr, cl, cr.c.props[d.i], id)
    [] d.kind = "op" -> OpPart(cr, cl, cr.c.ops[d.i], id)
    [] d.kind = "inherited" -> MethodPartOn(cr, cl[Find(cl, cr.c.base)], cl, cl[Find(cl, cr.c.base)].c.methods[d.i], FALSE, id)
FoldParts(ds, ctx, acc) ==
  IF ds = <<>> THEN acc
  ELSE LET r == PartOf(ctx.cr, ctx.cl, Head(ds), acc.id) IN FoldParts(Tail(ds), ctx, Cat(acc, r.steps, r.id))

ClassPlan(cr, cl, id) ==
  LET c == cr.c
      ds == [i \in 1..Len(c.ctors) |-> [kind |-> "ctor", i |-> i]] \o [i \in 1..Len(c.methods) |-> [kind |-> "method", i |-> i]]
            \o [i \in 1..Len(c.statics) |-> [kind |-> "static", i |-> i]] \o [i \in 1..Len(c.props) |-> [kind |-> "prop", i |-> i]]
            \o [i \in 1..Len(c.ops) |-> [kind |-> "op", i |-> i]]
            \* a method of the base class called on an object of the derived class runs the base's entity
            \* (unless the derived class declares a member of that name itself: it hides the base's overloads)
            \o (IF c.hasbase /\ Find(cl, c.base) # 0
                THEN LET bm == cl[Find(cl, c.base)].c.methods
                         own == {c.methods[j].name : j \in 1..Len(c.methods)} \cup {c.statics[j].name : j \in 1..Len(c.statics)}
                                \cup {c.props[j].name : j \in 1..Len(c.props)}
                         vis == SelectSeq([i \in 1..Len(bm) |-> i], LAMBDA i : bm[i].name \notin own)
                     IN [k \in 1..Len(vis) |-> [kind |-> "inherited", i |-> vis[k]]]
                ELSE <<>>)
      enums == FlatSeq([i \in 1..Len(c.enums) |->
                  [j \in 1..Len(c.enums[i].enumerators) |->
                     CallStep("enum", cr.path \o <<c.enums[i].name>>, c.enums[i].enumerators[j], "", "", <<>>, NoKw, <<>>, "val:" \o ToString(j - 1), "")]])
      base == IF c.hasbase /\ Find(cl, c.base) # 0
              THEN << CallStep("subclass", cr.path, JoinStr(cl[Find(cl, c.base)].path, "."), "", "", <<>>, NoKw, <<>>, "val:True", "") >> ELSE <<>>
      r == FoldParts(ds, [cr |-> cr, cl |-> cl], Acc(<<>>, id))
  IN Acc(base \o enums \o r.steps, r.id)

\* ---- namespace level: functions, enums, variables
RECURSIVE NsPlan(_, _, _, _)
NsPlan(items, nspath, cl, acc) ==
  IF items = <<>> THEN acc
  ELSE LET d == Head(items)
           r == CASE d.k = "namespace" -> NsPlan(d.items, nspath \o <<d.name>>, cl, Acc(<<>>, acc.id))
                  [] d.k = "class" -> ClassPlan(cl[Find(cl, d.cpp)], cl, acc.id)
                  [] d.k = "function" ->
                       IF ~Suppliable(d.args, cl) THEN Acc(<<>>, acc.id)
                       ELSE LET objs == ArgObjs(d.args, cl, 1, acc.id) IN
                            Acc([k \in 1..Len(objs) |-> objs[k].step]
                                \o WithRetCpp(Calls("func", nspath, FuncPyName(d.name), d.name, "", d.args, cl, objs, JoinStr(nspath \o <<d.cpp>>, "::"), <<>>, RetOf(d.ret, cl)), d.ret, cl),
                                acc.id + Len(objs))
                  [] d.k = "enum" ->
                       Acc([j \in 1..Len(d.enumerators) |->
                              CallStep("enum", nspath \o <<d.name>>, d.enumerators[j], "", "", <<>>, NoKw, <<>>, "val:" \o ToString(j - 1), "")], acc.id)
                  [] d.k = "variable" ->
                       LET k == IF Len(d.t.qn) = 1 /\ d.t.qn[1] \in BasicKinds THEN d.t.qn[1] ELSE "other" IN
                       IF k = "other" THEN Acc(<<>>, acc.id)
                       ELSE Acc(<< CallStep("attr", nspath, d.name, "", "", <<>>, NoKw, <<>>,
                                        "val:" \o (IF d.hasdef THEN DefaultPy(d.def) ELSE ZeroPy(k)), "") >>, acc.id)
                  [] OTHER -> Acc(<<>>, acc.id)
       IN NsPlan(Tail(items), nspath, cl, Cat(acc, r.steps, r.id))

\* ---- C03, executed: what each module object and each class object exposes (public attributes = not beginning with '_')
RECURSIVE SetSeq(_)
SetSeq(S) == IF S = {} THEN <<>> ELSE LET x == CHOOSE y \in S : TRUE IN <<x>> \o SetSeq(S \ {x})
RECURSIVE ClassNames(_, _)
ClassNames(cr, cl) ==
  LET c == cr.c IN
     {MethodPyName(c.methods[i].name, c.methods[i].cpp) : i \in {j \in 1..Len(c.methods) : c.methods[j].cpp \notin IPythonSpecial \cup {"serialize", "serializable"}}}
  \cup {MethodPyName(c.statics[i].name, c.statics[i].cpp) : i \in {j \in 1..Len(c.statics) : c.statics[j].cpp \notin IPythonSpecial \cup {"serialize", "serializable"}}}
  \cup {c.props[i].name : i \in 1..Len(c.props)} \cup {c.enums[i].name : i \in 1..Len(c.enums)}
  \cup (IF c.hasbase /\ Find(cl, c.base) # 0 THEN ClassNames(cl[Find(cl, c.base)], cl) ELSE {})
ModuleNames(items) ==
  {items[i].name : i \in {j \in 1..Len(items) : items[j].k \in {"class", "fwdinst", "enum", "variable", "namespace"}}}
  \cup {FuncPyName(items[i].name) : i \in {j \in 1..Len(items) : items[j].k = "function"}}
\* a namespace may be opened several times: its submodule holds the union
RECURSIVE NsItems(_, _)
NsItems(items, name) == FlatSeq([i \in 1..Len(items) |-> IF items[i].k = "namespace" /\ items[i].name = name THEN items[i].items ELSE <<>>])
RECURSIVE ExposeNs(_, _, _)
ExposeNs(items, nspath, cl) ==
  << CallStep("expose", nspath, "module", "", "", SetSeq(ModuleNames(items)), NoKw, <<>>, "any", "") >>
  \o FlatSeq([i \in 1..Len(items) |->
        IF items[i].k = "class" /\ Find(cl, items[i].cpp) # 0
        THEN << CallStep("expose", nspath \o <<items[i].name>>, "class", "", "", SetSeq(ClassNames(cl[Find(cl, items[i].cpp)], cl)), NoKw, <<>>, "any", "") >>
        ELSE <<>>])
  \o FlatSeq([n \in 1..Len(SetSeq({items[i].name : i \in {j \in 1..Len(items) : items[j].k = "namespace"}})) |->
        LET name == SetSeq({items[i].name : i \in {j \in 1..Len(items) : items[j].k = "namespace"}})[n]
        IN ExposeNs(NsItems(items, name), nspath \o <<name>>, cl)])

Plan(inst) == ExposeNs(inst, <<>>, Classes(inst, <<>>)) \o NsPlan(inst, <<>>, Classes(inst, <<>>), Acc(<<>>, 0)).steps

\* facts about the module that decide whether a recorded MATLAB finding applies to its gateway as a whole
RECURSIVE AllCallables(_)
AllCallables(items) ==
  FlatSeq([i \in 1..Len(items) |->
     CASE items[i].k = "namespace" -> AllCallables(items[i].items)
       [] items[i].k = "function" -> << items[i] >>
       [] items[i].k = "class" -> items[i].methods \o items[i].statics
       [] OTHER -> <<>>])
RawRet(m) == (m.ret.t1.q = "@") \/ (m.ret.pair /\ m.ret.t2.q = "@")
RECURSIVE AnyTemplatedFunction(_)
AnyTemplatedFunction(items) ==
  \E i \in 1..Len(items) : CASE items[i].k = "namespace" -> AnyTemplatedFunction(items[i].items)
                               [] items[i].k = "function" -> items[i].cpp # items[i].name
                               [] OTHER -> FALSE
RECURSIVE AnyPointerProperty(_)
AnyPointerProperty(items) ==
  \E i \in 1..Len(items) : CASE items[i].k = "namespace" -> AnyPointerProperty(items[i].items)
                               [] items[i].k = "class" -> \E j \in 1..Len(items[i].props) : items[i].props[j].t.q \in {"*", "@"}
                               [] OTHER -> FALSE
RECURSIVE AnyTemplateInstantiation(_)
AnyTemplateInstantiation(items) ==
  \E i \in 1..Len(items) : CASE items[i].k = "namespace" -> AnyTemplateInstantiation(items[i].items)
                               [] items[i].k = "class" -> Lex.hasangle[items[i].cpp]      \* (lexical fact: the spelling has template arguments)
                               [] OTHER -> FALSE
Facts(inst) == [tmplclass |-> AnyTemplateInstantiation(inst), ptrprop |-> AnyPointerProperty(inst), rawret |-> \E i \in 1..Len(AllCallables(inst)) : RawRet(AllCallables(inst)[i]), tmplfunc |-> AnyTemplatedFunction(inst)]
=============================================================================
