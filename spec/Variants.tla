------------------------------ MODULE Variants ------------------------------
(***************************************************************************)
(* C13: transformations of a templated declaration under which the result  *)
(* for one instantiation must not change:                                  *)
(*   Single(d, j)    keep only the j-th combination of the lists           *)
(*   Reversed(d)     reverse every instantiation list                      *)
(*   Renamed(d,p,f)  rename parameter p to the fresh identifier f          *)
(* The transformations act on the concrete syntax tree, so a parameter is  *)
(* renamed exactly where it is a parameter (head of a qualified name, not  *)
(* shadowed), never where its spelling merely occurs.                      *)
(* VariantTrace emits, for every case of a batch, the token sequences of   *)
(* its variants; the harness runs original and variants through the        *)
(* implementation and compares per-instantiation results.                  *)
(***************************************************************************)
EXTENDS Instantiate

RECURSIVE RenType(_, _, _)
RenType(t, p, f) ==
  [t EXCEPT !.qn = IF ~t.basic /\ Len(t.qn) > 0 /\ t.qn[1] = p THEN <<f>> \o Tail(t.qn) ELSE t.qn,
            !.args = [i \in 1..Len(t.args) |-> RenType(t.args[i], p, f)]]
RenArgs(args, p, f) == [i \in 1..Len(args) |-> [args[i] EXCEPT !.t = RenType(args[i].t, p, f)]]
RenRet(r, p, f) == [r EXCEPT !.t1 = RenType(r.t1, p, f), !.t2 = IF r.pair THEN RenType(r.t2, p, f) ELSE r.t2]
RenTmplNames(tm, p, f) == [i \in 1..Len(tm) |-> [tm[i] EXCEPT !.name = IF tm[i].name = p THEN f ELSE tm[i].name]]
Shadows(m, p) == \E i \in 1..Len(m.tmpl) : m.tmpl[i].name = p

RenMember(m, p, f) ==
  CASE m.k = "ctor"     -> IF Shadows(m, p) THEN m ELSE [m EXCEPT !.args = RenArgs(m.args, p, f)]
    [] m.k \in {"method", "static"} ->
         IF Shadows(m, p) THEN m ELSE [m EXCEPT !.args = RenArgs(m.args, p, f), !.ret = RenRet(m.ret, p, f)]
    [] m.k = "prop"     -> [m EXCEPT !.t = RenType(m.t, p, f)]
    [] m.k = "operator" -> [m EXCEPT !.args = RenArgs(m.args, p, f), !.ret = RenRet(m.ret, p, f)]
    [] m.k = "dunder"   -> [m EXCEPT !.args = RenArgs(m.args, p, f)]
    [] OTHER            -> m

Templated(d) == d.k \in {"class", "function"} /\ d.tmpl # <<>>
HasLists(d) == Templated(d) /\ \A i \in 1..Len(d.tmpl) : d.tmpl[i].insts # <<>>

Renamed(d, p, f) ==
  IF d.k = "class"
  THEN [d EXCEPT !.tmpl = RenTmplNames(d.tmpl, p, f),
                 !.base = IF d.hasbase THEN RenType(d.base, p, f) ELSE d.base,
                 !.members = [i \in 1..Len(d.members) |-> RenMember(d.members[i], p, f)]]
  ELSE [d EXCEPT !.tmpl = RenTmplNames(d.tmpl, p, f), !.args = RenArgs(d.args, p, f), !.ret = RenRet(d.ret, p, f)]

RevSeq(s) == [i \in 1..Len(s) |-> s[Len(s) + 1 - i]]
Reversed(d) == [d EXCEPT !.tmpl = [i \in 1..Len(d.tmpl) |-> [d.tmpl[i] EXCEPT !.insts = RevSeq(d.tmpl[i].insts)]]]
NCombos(d) == Len(Product(TmplLists(d.tmpl)))
Single(d, j) ==
  LET c == Product(TmplLists(d.tmpl))[j] IN
  [d EXCEPT !.tmpl = [i \in 1..Len(d.tmpl) |-> [d.tmpl[i] EXCEPT !.insts = <<c[i]>>]]]

\* every parameter p of every templated declaration is renamed to Fresh(p)
Fresh(p) == "Zq" \o p
RECURSIVE RenAll(_, _)
RenAll(d, k) == IF k = 0 THEN d ELSE RenAll(Renamed(d, d.tmpl[k].name, Fresh(d.tmpl[k].name)), k - 1)
\* a second spelling that shares no character with the original one ("any unused identifier")
Fresh2(k) == "Zq" \o ToString(k)
RECURSIVE RenAll2(_, _)
RenAll2(d, k) == IF k = 0 THEN d ELSE RenAll2(Renamed(d, d.tmpl[k].name, Fresh2(k)), k - 1)
Min(a, b) == IF a < b THEN a ELSE b

\* one transformation applied to every declaration of a module (namespaces are entered)
Transform(d, mode, j) ==
  CASE mode = "reversed" -> IF HasLists(d) THEN Reversed(d) ELSE d
    [] mode = "renamed"  -> IF Templated(d) THEN RenAll(d, Len(d.tmpl)) ELSE d
    [] mode = "renamed2" -> IF Templated(d) THEN RenAll2(d, Len(d.tmpl)) ELSE d
    [] mode = "single"   -> IF HasLists(d) /\ NCombos(d) > 0 THEN Single(d, Min(j, NCombos(d))) ELSE d
RECURSIVE MapDecls(_, _, _)
MapDecls(items, mode, j) ==
  [i \in 1..Len(items) |->
     IF items[i].k = "namespace" THEN [items[i] EXCEPT !.items = MapDecls(items[i].items, mode, j)]
     ELSE Transform(items[i], mode, j)]
AllReversed(cst) == MapDecls(cst, "reversed", 0)
AllRenamed(cst) == MapDecls(cst, "renamed", 0)
AllRenamed2(cst) == MapDecls(cst, "renamed2", 0)
AllSingle(cst, j) == MapDecls(cst, "single", j)

\* ---- C15: removal of one declaration (namespaces are entered, not removed)
RECURSIVE DeclPaths(_, _)
DeclPaths(items, prefix) ==
  FlatSeq([i \in 1..Len(items) |->
             IF items[i].k = "namespace" THEN DeclPaths(items[i].items, prefix \o <<i>>) ELSE << prefix \o <<i>> >>])
RECURSIVE RemoveAt(_, _)
RemoveAt(items, path) ==
  IF Len(path) = 1 THEN SubSeq(items, 1, path[1] - 1) \o SubSeq(items, path[1] + 1, Len(items))
  ELSE [items EXCEPT ![path[1]] = [@ EXCEPT !.items = RemoveAt(@, Tail(path))]]
RECURSIVE DeclAt(_, _)
DeclAt(items, path) == IF Len(path) = 1 THEN items[path[1]] ELSE DeclAt(items[path[1]].items, Tail(path))
RECURSIVE NsPathOf(_, _)
NsPathOf(items, path) == IF Len(path) = 1 THEN <<>> ELSE <<items[path[1]].name>> \o NsPathOf(items[path[1]].items, Tail(path))
DeclLabel(d) == CASE d.k = "include" -> d.header [] d.k = "fwd" -> d.qn[Len(d.qn)] [] d.k = "typedef" -> d.newname
                  [] OTHER -> d.name
Removals(cst) ==
  LET ps == DeclPaths(cst, <<>>) IN
  [i \in 1..Len(ps) |-> [path |-> ps[i], k |-> DeclAt(cst, ps[i]).k, name |-> DeclLabel(DeclAt(cst, ps[i])),
                          nspath |-> NsPathOf(cst, ps[i]),
                          templated |-> (DeclAt(cst, ps[i]).k \in {"class", "function"} /\ DeclAt(cst, ps[i]).tmpl # <<>>),
                          toks |-> RenderItems(RemoveAt(cst, ps[i]))]]

\* ---- laws on the oracle (checked by TLC in InstLaws): the specified result is invariant under the variants
LawSingle(c, nspath, j) ==
  LET all == IClassAll(AbsClass(c), nspath) IN
  IClassAll(AbsClass(Single(c, j)), nspath) = << all[j] >>
LawRename(c, nspath) == IClassAll(AbsClass(RenAll(c, Len(c.tmpl))), nspath) = IClassAll(AbsClass(c), nspath)
LawReverse(c, nspath) ==
  LET a == IClassAll(AbsClass(c), nspath) b == IClassAll(AbsClass(Reversed(c)), nspath) IN
  /\ Len(a) = Len(b)
  /\ \A i \in 1..Len(a) : \E j \in 1..Len(b) : a[i] = b[j]
=============================================================================
