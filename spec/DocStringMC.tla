---------------------------- MODULE DocStringMC ----------------------------
(* Model checking of DocString: (2) every text of length <= MaxLen over the alphabet either round-trips through    *)
(* Embed / Decode or is one of the analysed deviations, and vice versa; (1) the lookup machine explored over a     *)
(* small Doxygen model: every sequence of <= MaxCalls lookups.                                                     *)
EXTENDS DocString
CONSTANTS MaxLen, MaxCalls
VARIABLES memory, log

XML == [index |-> "ok", hasclass |-> TRUE, classfile |-> "ok",
        members |-> << [name |-> "f", params |-> <<[decl |-> "x", defval |-> FALSE]>>, doc |-> "f(x)#1"],
                       [name |-> "f", params |-> <<[decl |-> "x", defval |-> FALSE]>>, doc |-> "f(x)#2"],
                       [name |-> "f", params |-> <<[decl |-> "x", defval |-> FALSE], [decl |-> "y", defval |-> TRUE]>>, doc |-> "f(x,y=)"],
                       [name |-> "g", params |-> <<[decl |-> "", defval |-> FALSE]>>, doc |-> "g(?)"],
                       [name |-> "g", params |-> <<>>, doc |-> ""] >>]
Calls == { [name |-> "f", args |-> <<"x">>], [name |-> "f", args |-> <<"x", "y">>], [name |-> "f", args |-> <<"z">>],
           [name |-> "g", args |-> <<>>], [name |-> "g", args |-> <<"a">>], [name |-> "h", args |-> <<>>] }
Init == memory = <<>> /\ log = <<>>
Next == /\ Len(log) < MaxCalls
        /\ \E c \in Calls : LET r == Lookup(memory, XML, "A", c.name, c.args) IN
                             /\ memory' = r.memory
                             /\ log' = Append(log, [call |-> c, doc |-> r.doc])
AllDocs == {XML.members[i].doc : i \in 1..Len(XML.members)} \cup {""}
\* a lookup returns the text of a matching member or nothing
InvDocIsCandidate ==
  \A i \in 1..Len(log) : log[i].doc = "" \/
     \E j \in 1..Len(XML.members) : XML.members[j].doc = log[i].doc /\ Matches(XML.members[j], log[i].call.name, log[i].call.args)
\* overloads with identical parameter names are served in order, each at most once
InvOverloadsInOrder ==
  \A i, j \in 1..Len(log) : (i < j /\ log[i].call = log[j].call /\ log[i].doc # "" /\ log[j].doc # ""
                             /\ Len(Candidates(XML, log[i].call.name, log[i].call.args)) > 1) => log[i].doc # log[j].doc
\* the whole log equals what Docs says for the sequence of calls (the machine and the fold agree)
InvFold == [i \in 1..Len(log) |-> log[i].doc] = Docs(XML, "A", [i \in 1..Len(log) |-> log[i].call])
\* (2)
ASSUME \A t \in Texts(MaxLen) : RoundTrips(t)
\* the repr-based literal of the pinned tree failed exactly on the analysed classes of texts
ASSUME \A t \in Texts(MaxLen) : RoundTripsRepr(t) <=> ~KnownBad(t)
=============================================================================
