-------------------------------- MODULE Mex --------------------------------
(***************************************************************************)
(* The MATLAB generator (C05, C06, C10) as expectations over the           *)
(* instantiated tree in its MATLAB-oriented projection (types as           *)
(* [name, ns, insts, cpp, const, shared, ptr, ref]).                       *)
(*                                                                         *)
(*   Toolbox(inst, opts)    the files of the toolbox: one classdef per     *)
(*                          class instantiation, one function file per     *)
(*                          free-function name, one enumeration per enum   *)
(*   Callables              for every callable its overloads = the arities *)
(*                          n .. n-k (k trailing defaults), each with the  *)
(*                          MATLAB-side guard and the C++ routine it must  *)
(*                          reach (unwraps by passing mode, call with the  *)
(*                          omitted defaults' text, return wrapping)       *)
(*   Preamble               collectors, RTTI entries, delete loops         *)
(* Ids are NOT predicted here: C05 only demands that the tables agree      *)
(* (MexIds.tla model-checks the allocation protocol itself).               *)
(***************************************************************************)
EXTENDS Iface

RECURSIVE JoinStr(_, _)
JoinStr(ss, sep) == IF Len(ss) = 0 THEN "" ELSE IF Len(ss) = 1 THEN ss[1] ELSE ss[1] \o sep \o JoinStr(Tail(ss), sep)
Last(s) == s[Len(s)]
InSeq(x, s) == \E i \in 1..Len(s) : s[i] = x
RECURSIVE RemoveFirst(_, _)
RemoveFirst(s, x) == IF s = <<>> THEN <<>> ELSE IF Head(s) = x THEN Tail(s) ELSE <<Head(s)>> \o RemoveFirst(Tail(s), x)

---------------------------------------------------------------------------
\* type classification (CheckMixin)
NotPtrType == {"int", "double", "bool", "char", "unsigned char", "size_t"}
IgnoreNs == {"Matrix", "Vector", "Point2", "Point3"}
CanBePointer(t) == t.name \notin NotPtrType /\ t.name \notin IgnoreNs /\ t.name # "string"
IsRef(t) == t.name \notin IgnoreNs /\ t.name \notin NotPtrType /\ t.ref

\* MATLAB class of a C++ type as tested by isa(...) (data_type / data_type_param tables of the generator)
DataTypeParam(n) == CASE n \in {"string", "char"} -> "char" [] n = "unsigned char" -> "unsigned char"
                      [] n \in {"size_t", "int"} -> "int"
                      [] n \in {"double", "Point2", "Point3", "Vector", "Matrix"} -> "double" [] n = "bool" -> "bool"
                      [] OTHER -> ""
DataType(n) == CASE n \in {"string", "char"} -> "char" [] n = "unsigned char" -> "unsigned char"
                 [] n \in {"Vector", "Matrix"} -> "double" [] n \in {"int", "size_t"} -> "numeric" [] n = "bool" -> "logical"
                 [] OTHER -> ""

RECURSIVE Fmt(_, _, _, _)
\* FormatMixin._format_type_name: the name of a type with separator sep ("::" C++, "." MATLAB, "" identifier)
Fmt(tn, sep, inclNs, ctor) ==
  LET prefix == IF inclNs /\ tn.name \notin IgnoreNs
                THEN JoinStr([i \in 1..Len(tn.ns) |-> tn.ns[i] \o sep], "") ELSE ""
      base == IF ctor /\ DataType(tn.name) # "" THEN DataType(tn.name) ELSE tn.name
  IN IF sep = "::"
     THEN prefix \o base \o (IF Len(tn.insts) = 0 THEN ""
                             ELSE "<" \o JoinStr([i \in 1..Len(tn.insts) |-> Fmt(tn.insts[i], sep, inclNs, ctor)], ",") \o ">")
     ELSE prefix \o base \o JoinStr([i \in 1..Len(tn.insts) |-> Fmt(tn.insts[i], sep, FALSE, ctor)], "")

CheckType(t, ctor) ==
  LET p == DataTypeParam(t.name) IN
  IF p # "" THEN (IF DataType(p) # "" THEN DataType(p) ELSE p)
  ELSE Fmt(t, ".", TRUE, ctor)
CheckExtra(t, i) ==
  LET v == "varargin{" \o ToString(i) \o "}" IN
  CASE t.name = "Vector" -> << "size(" \o v \o ",2)==1" >>
    [] t.name = "Point2" -> << "size(" \o v \o ",1)==2", "size(" \o v \o ",2)==1" >>
    [] t.name = "Point3" -> << "size(" \o v \o ",1)==3", "size(" \o v \o ",2)==1" >>
    [] OTHER -> <<>>
Checks(args, ctor) == [i \in 1..Len(args) |-> [index |-> i, type |-> CheckType(args[i].t, ctor), extra |-> CheckExtra(args[i].t, i)]]

---------------------------------------------------------------------------
\* default expansion: a callable with n parameters of which the trailing k have defaults offers arities n, n-1, .., n-k
TrailingDefaults(args) ==
  LET n == Len(args) IN
  CHOOSE k \in 0..n : (\A i \in (n - k + 1)..n : args[i].hasdef) /\ (k = n \/ ~args[n - k].hasdef)
DefaultsWellPlaced(args) == \A i \in 1..(Len(args) - TrailingDefaults(args)) : ~args[i].hasdef
Arities(args) == [j \in 1..(TrailingDefaults(args) + 1) |-> Len(args) - j + 1]      \* n, n-1, .., n-k

---------------------------------------------------------------------------
\* C++ side: unwrapping one argument (passing modes) and the call parameters
NoClass == [name |-> "", enumnames |-> <<>>, nspath |-> <<>>, cpp |-> ""]
IsEnumOf(t, c, nsEnums) == c.name # "" /\ (InSeq(t.name, c.enumnames) \/ InSeq(t.name, nsEnums))
Unwrap(a, idx, cls, nsEnums) ==
  LET t == a.t sepName == Fmt(t, "::", TRUE, FALSE) camel == Fmt(t, "", TRUE, FALSE) IN
  IF IsEnumOf(t, cls, nsEnums)
  THEN [decl_type |-> t.cpp, var |-> a.name, mode |-> "enum", type |-> t.cpp, index |-> idx, ptr_name |-> ""]
  ELSE IF IsRef(t)
  THEN [decl_type |-> sepName \o "&", var |-> a.name, mode |-> "ref", type |-> sepName, index |-> idx, ptr_name |-> "ptr_" \o camel]
  ELSE IF t.ptr /\ t.name \notin IgnoreNs
  THEN [decl_type |-> sepName \o "*", var |-> a.name, mode |-> "ptr", type |-> sepName, index |-> idx, ptr_name |-> "ptr_" \o camel]
  ELSE IF (t.shared \/ CanBePointer(t)) /\ t.name \notin IgnoreNs
  THEN [decl_type |-> "std::shared_ptr<" \o sepName \o ">", var |-> a.name, mode |-> "shared", type |-> sepName,
        index |-> idx, ptr_name |-> "ptr_" \o camel]
  ELSE [decl_type |-> t.name, var |-> a.name, mode |-> "value", type |-> t.name, index |-> idx, ptr_name |-> ""]

\* the argument list of the C++ call for the overload that passes the first m of the declared arguments:
\* explicit arguments (objects held by shared_ptr are dereferenced when the parameter is by value),
\* then the omitted defaults' original text
CallArg(a, cls, nsEnums) ==
  LET t == a.t IN
  IF ~IsRef(t) /\ (t.shared \/ t.ptr \/ CanBePointer(t)) /\ ~IsEnumOf(t, cls, nsEnums) /\ t.name \notin IgnoreNs
     /\ ~t.shared /\ ~t.ptr
  THEN "*" \o a.name ELSE a.name
CallParams(args, m, cls, nsEnums) ==
  JoinStr([i \in 1..Len(args) |-> IF i <= m THEN CallArg(args[i], cls, nsEnums) ELSE args[i].def], ",")

\* wrapping one returned value
MatlabName(t) == Fmt(t, ".", TRUE, FALSE)
OutOne(t, idx, expr, cls, nsEnums, clsMatlab, nsMatlab) ==
  IF IsEnumOf(t, cls, nsEnums)
  THEN [index |-> idx, form |-> "wrap_enum",
        type |-> (IF InSeq(t.name, cls.enumnames) THEN clsMatlab \o "." ELSE IF nsMatlab = "" THEN "" ELSE nsMatlab \o ".") \o t.name,
        expr |-> expr]
  ELSE IF t.shared \/ t.ptr \/ CanBePointer(t)
  THEN IF t.name \in IgnoreNs
       THEN [index |-> idx, form |-> "shared_block", type |-> Fmt(t, "::", FALSE, FALSE), expr |-> expr]
       ELSE [index |-> idx, form |-> "wrap_shared_ptr", type |-> MatlabName(t),
             expr |-> IF t.shared \/ t.ptr THEN expr ELSE "std::make_shared<" \o Fmt(t, "::", TRUE, FALSE) \o ">(" \o expr \o ")"]
  ELSE [index |-> idx, form |-> "wrap", type |-> t.name, expr |-> expr]
\* (pair members are wrapped with the '.'-separated name in wrap< >, single returns with the bare name)
OutPair(t, idx, cls, nsEnums) ==
  LET expr == IF idx = 0 THEN "pairResult.first" ELSE "pairResult.second" IN
  IF t.shared \/ t.ptr \/ CanBePointer(t)
  THEN IF t.name \in IgnoreNs
       THEN [index |-> idx, form |-> "shared_block", type |-> Fmt(t, "::", FALSE, FALSE),
             expr |-> IF t.shared \/ t.ptr THEN expr ELSE "std::make_shared<" \o Fmt(t, "::", TRUE, FALSE) \o ">(" \o expr \o ")"]
       ELSE [index |-> idx, form |-> "wrap_shared_ptr", type |-> MatlabName(t),
             expr |-> IF t.shared \/ t.ptr THEN expr ELSE "std::make_shared<" \o Fmt(t, "::", TRUE, FALSE) \o ">(" \o expr \o ")"]
  ELSE [index |-> idx, form |-> "wrap", type |-> MatlabName(t), expr |-> expr]

Outs(ret, call, cls, nsEnums, clsMatlab, nsMatlab) ==
  IF ~ret.pair /\ ret.t1.name = "void" THEN <<>>
  ELSE IF ~ret.pair THEN << OutOne(ret.t1, 0, call, cls, nsEnums, clsMatlab, nsMatlab) >>
  ELSE << OutPair(ret.t1, 0, cls, nsEnums), OutPair(ret.t2, 1, cls, nsEnums) >>
VarArgOut(ret) == IF ret.pair THEN "[ varargout{1} varargout{2} ] = "
                  ELSE IF ret.t1.name = "void" THEN "" ELSE "varargout{1} = "

---------------------------------------------------------------------------
\* names
Pkg(nspath) == JoinStr([i \in 1..Len(nspath) |-> "+" \o nspath[i]], "/")
PathOf(nspath, file) == IF nspath = <<>> THEN file ELSE Pkg(nspath) \o "/" \o file
Collector(c) == JoinStr(c.nspath, "") \o c.name
ClassMatlab(c) == JoinStr(c.nspath \o <<c.name>>, ".")
NsMatlab(c) == JoinStr(c.nspath, ".")
\* the C++ name used for a class in collectors / RTTI: the typedef alias for template instantiations
CollectorCpp(c) == IF c.templated THEN c.name ELSE c.cpp
WithEnumNames(c) == [c EXCEPT !.enums = c.enums] @@ [enumnames |-> [i \in 1..Len(c.enums) |-> c.enums[i].name]]

\* the MATLAB class name of a base class: packages '.' name followed by the instantiation names
BaseMatlab(tn) == JoinStr(tn.ns \o <<tn.name>>, ".") \o JoinStr([i \in 1..Len(tn.insts) |-> Fmt(tn.insts[i], ".", FALSE, FALSE)], "")
RECURSIVE CppDot(_)
CppDot(tn) == JoinStr(tn.ns \o <<tn.name>>, ".") \o
              (IF Len(tn.insts) = 0 THEN "" ELSE "<" \o JoinStr([i \in 1..Len(tn.insts) |-> CppDot(tn.insts[i])], ", ") \o ">")

\* one overload of a callable: the MATLAB guard and the routine it must reach
Overload(kind, c, member, args, m, ret, call, offset, nsEnums, checkName, devcall, devclass) ==
  LET cls == IF c.name = "" THEN NoClass ELSE WithEnumNames(c) IN
  [m |-> [nargs |-> m, checks |-> Checks(SubSeq(args, 1, m), kind \in {"constructor", "function"}),
          \* (static methods too: none for void, two outputs for a pair)
          varargout |-> IF kind = "constructor" THEN "" ELSE VarArgOut(ret)],
   r |-> [kind |-> kind,
          check |-> IF kind = "constructor" THEN [name |-> "", nargin_minus_1 |-> FALSE, count |-> 0 - 1]
                    ELSE [name |-> checkName, nargin_minus_1 |-> (kind = "method"), count |-> m],
          unwraps |-> [i \in 1..m |-> Unwrap(args[i], i - 1 + offset, cls, nsEnums)],
          params |-> CallParams(args, m, cls, nsEnums),
          call |-> call,
          pair |-> (kind # "constructor" /\ ret.pair),
          void |-> (kind # "constructor" /\ ~ret.pair /\ ret.t1.name = "void"),
          outs |-> IF kind = "constructor" THEN <<>>
                   ELSE Outs(ret, call \o "(" \o CallParams(args, m, cls, nsEnums) \o ")", cls, nsEnums,
                             IF c.name = "" THEN "" ELSE ClassMatlab(c), IF c.name = "" THEN "" ELSE NsMatlab(c)),
          \* an analysed deviation of the pinned tree (classification only): the entity is spelled differently
          devcall |-> devcall, devclass |-> devclass,
          devouts |-> IF kind = "constructor" \/ devcall = "" THEN <<>>
                      ELSE Outs(ret, devcall \o "(" \o CallParams(args, m, cls, nsEnums) \o ")", cls, nsEnums,
                                IF c.name = "" THEN "" ELSE ClassMatlab(c), IF c.name = "" THEN "" ELSE NsMatlab(c))]]

Overloads(kind, c, member, args, ret, call, offset, nsEnums, checkName, devcall, devclass) ==
  LET ar == Arities(args) IN
  [j \in 1..Len(ar) |-> Overload(kind, c, member, args, ar[j], ret, call, offset, nsEnums, checkName, devcall, devclass)]

\* group callables by name, keeping declaration order inside a group and the order of first occurrence between groups
RECURSIVE GroupNames(_, _)
GroupNames(ms, seen) == IF ms = <<>> THEN <<>>
                        ELSE IF Head(ms).name \in seen THEN GroupNames(Tail(ms), seen)
                        ELSE <<Head(ms).name>> \o GroupNames(Tail(ms), seen \cup {Head(ms).name})
Whitelist == {"serializable", "serialize"}

ClassFile(c, nsEnums, ser) ==
  LET hasSer == \E i \in 1..Len(c.methods) : c.methods[i].name = "serialize"
      mnames == GroupNames(SelectSeq(c.methods, LAMBDA m : m.name \notin Whitelist /\ m.name # "pickle"), {})
      snames == GroupNames(SelectSeq(c.statics, LAMBDA m : m.name # "pickle"), {})
      ofName(ms, n) == SelectSeq(ms, LAMBDA m : m.name = n)
  IN [kind |-> "class", path |-> PathOf(c.nspath, c.name \o ".m"), name |-> c.name,
      parent |-> IF c.hasbase THEN BaseMatlab(c.base) ELSE "handle",
      \* analysed deviation: the classdef line spells a templated base as C++ with '.' for '::'
      parentdev |-> IF c.hasbase /\ Len(c.base.insts) > 0 THEN CppDot(c.base) ELSE "",
      parentcpp |-> IF c.hasbase THEN c.base.cpp ELSE "",
      properties |-> <<"ptr_" \o Collector(c)>> \o [i \in 1..Len(c.props) |-> c.props[i].name],
      ptr_property |-> "ptr_" \o Collector(c),
      virtual |-> c.virtual, hasbase |-> c.hasbase,
      cpp |-> c.cpp, collector |-> Collector(c), matlab |-> ClassMatlab(c),
      ctors |-> FlatSeq([i \in 1..Len(c.ctors) |->
                  Overloads("constructor", c, c.name, c.ctors[i].args, "", c.cpp, 0, nsEnums, "", "", "")]),
      ctorsWellFormed |-> \A i \in 1..Len(c.ctors) : DefaultsWellPlaced(c.ctors[i].args),
      methods |-> [g \in 1..Len(mnames) |->
                     [name |-> mnames[g],
                      overloads |-> FlatSeq([i \in 1..Len(ofName(c.methods, mnames[g])) |->
                         LET m == ofName(c.methods, mnames[g])[i] IN
                         Overloads("method", c, m.name, m.args, m.ret, "obj->" \o m.cpp, 1, nsEnums, m.name, "", "")])]],
      serialize |-> hasSer /\ ser,
      getters |-> [i \in 1..Len(c.props) |-> c.props[i].name],
      \* a const property is read-only: no set method, no routine assigning to the const member
      setters |-> [i \in 1..Len(SelectSeq(c.props, LAMBDA q : ~q.t.const)) |-> SelectSeq(c.props, LAMBDA q : ~q.t.const)[i].name],
      statics |-> [g \in 1..Len(snames) |->
                     [name |-> snames[g],
                      overloads |-> FlatSeq([i \in 1..Len(ofName(c.statics, snames[g])) |->
                         LET m == ofName(c.statics, snames[g])[i] IN
                         Overloads("static", c, m.name, m.args, m.ret, c.cpp \o "::" \o m.cpp, 0, nsEnums,
                                   c.cpp \o "." \o m.name,
                                   IF m.cpp # m.orig THEN c.cpp \o "::" \o m.orig ELSE "", "StaticTemplateArgumentsDropped")])]],
      props |-> [i \in 1..Len(c.props) |->
                   LET p == c.props[i] cls == WithEnumNames(c) IN
                   [name |-> p.name, const |-> p.t.const,
                    getter_out |-> OutOne(p.t, 0, "obj->" \o p.name, cls, nsEnums, ClassMatlab(c), NsMatlab(c)),
                    setter_unwrap |-> Unwrap([t |-> p.t, name |-> p.name], 1, cls, nsEnums),
                    setter_assign |-> "obj->" \o p.name \o " = " \o
                                      (IF CanBePointer(p.t) /\ ~IsEnumOf(p.t, cls, nsEnums) THEN "*" ELSE "") \o p.name]],
      enums |-> [i \in 1..Len(c.enums) |->
                   [kind |-> "enum", path |-> PathOf(c.nspath \o <<c.name>>, c.enums[i].name \o ".m"), name |-> c.enums[i].name,
                    enumerators |-> [j \in 1..Len(c.enums[i].enumerators) |-> [name |-> c.enums[i].enumerators[j], value |-> j - 1]]]]]

\* ---- what the PROPERTY says about enums, as opposed to the rule the generator applies (IsEnumOf above, transcribed):
\* a parameter / result / property whose type is ANY enum the module declares is marshalled as an enum (C06).  The
\* generator recognises an enum only by its bare name among the enums of the class itself and of the namespace BLOCK
\* the class sits in - never for a free function.  EnumGaps lists the places where the two differ.
RECURSIVE EnumCpps(_, _)
EnumCpps(items, nspath) ==
  UNION { CASE items[i].k = "namespace" -> EnumCpps(items[i].items, nspath \o <<items[i].name>>)
            [] items[i].k = "enum" -> { JoinStr(nspath \o <<items[i].name>>, "::") }
            [] items[i].k = "class" -> { items[i].cpp \o "::" \o items[i].enums[j].name : j \in 1..Len(items[i].enums) }
            [] OTHER -> {} : i \in 1..Len(items) }
TypesOf(m) == [j \in 1..Len(m.args) |-> m.args[j].t] \o (IF "ret" \in DOMAIN m THEN (IF m.ret.pair THEN <<m.ret.t1, m.ret.t2>> ELSE <<m.ret.t1>>) ELSE <<>>)
RECURSIVE EnumGaps(_, _, _, _)
EnumGaps(items, nspath, all, ignore) ==
  LET nsEnums == [i \in 1..Len(SelectSeq(items, LAMBDA d : d.k = "enum")) |-> SelectSeq(items, LAMBDA d : d.k = "enum")[i].name]
      gap(t, cls) == t.cpp \in all /\ ~IsEnumOf(t, cls, nsEnums)
      anyGap(ms, cls) == \E k \in 1..Len(ms) : \E j \in 1..Len(TypesOf(ms[k])) : gap(TypesOf(ms[k])[j], cls)
  IN FlatSeq([i \in 1..Len(items) |->
       LET d == items[i] IN
       CASE d.k = "namespace" -> EnumGaps(d.items, nspath \o <<d.name>>, all, ignore)
         [] d.k = "class" /\ ~InSeq(JoinStr(d.nspath \o <<d.name>>, "::"), ignore) ->
              LET cls == WithEnumNames(d) IN
              IF anyGap(d.ctors, cls) \/ anyGap(d.methods, cls) \/ anyGap(d.statics, cls)
                 \/ (\E k \in 1..Len(d.props) : gap(d.props[k].t, cls))
              THEN << d.cpp >> ELSE <<>>
         [] d.k = "function" -> IF anyGap(<<d>>, NoClass) THEN << JoinStr(nspath \o <<d.name>>, "::") >> ELSE <<>>
         [] OTHER -> <<>>])

\* the MATLAB ignore list names classes by namespace::InstantiatedName
IgnoreName(c) == JoinStr(c.nspath \o <<c.name>>, "::")

RECURSIVE Classes(_, _, _)
Classes(items, ignore, ser) ==
  LET nsEnums == [i \in 1..Len(SelectSeq(items, LAMBDA d : d.k = "enum")) |-> SelectSeq(items, LAMBDA d : d.k = "enum")[i].name] IN
  FlatSeq([i \in 1..Len(items) |->
     CASE items[i].k = "class" -> IF InSeq(IgnoreName(items[i]), ignore) THEN <<>> ELSE << ClassFile(items[i], nsEnums, ser) >>
       [] items[i].k = "namespace" -> Classes(items[i].items, ignore, ser)
       [] OTHER -> <<>>])

RECURSIVE Functions(_, _)
\* one function file per free-function name and namespace
Functions(items, nspath) ==
  LET fs == SelectSeq(items, LAMBDA d : d.k = "function")
      names == GroupNames(fs, {})
  IN [g \in 1..Len(names) |->
        [kind |-> "function", path |-> PathOf(nspath, names[g] \o ".m"), name |-> names[g],
         overloads |-> FlatSeq([i \in 1..Len(SelectSeq(fs, LAMBDA f : f.name = names[g])) |->
            LET f == SelectSeq(fs, LAMBDA x : x.name = names[g])[i] IN
            Overloads("function", NoClass, f.name, f.args, f.ret, JoinStr(nspath \o <<f.cpp>>, "::"), 0, <<>>, f.name,
                      IF f.cpp # f.name THEN JoinStr(nspath \o <<f.name>>, "::") ELSE "",
                      "TemplatedFunctionCalledByInstantiatedName")])]]
     \o FlatSeq([i \in 1..Len(items) |-> IF items[i].k = "namespace"
                                           THEN Functions(items[i].items, nspath \o <<items[i].name>>) ELSE <<>>])

RECURSIVE NsEnumFiles(_, _)
NsEnumFiles(items, nspath) ==
  FlatSeq([i \in 1..Len(items) |->
     CASE items[i].k = "enum" -> << [kind |-> "enum", path |-> PathOf(nspath, items[i].name \o ".m"), name |-> items[i].name,
                                     enumerators |-> [j \in 1..Len(items[i].enumerators) |->
                                                        [name |-> items[i].enumerators[j], value |-> j - 1]]] >>
       [] items[i].k = "namespace" -> NsEnumFiles(items[i].items, nspath \o <<items[i].name>>)
       [] OTHER -> <<>>])

RECURSIVE AllIncludes(_)
AllIncludes(items) == FlatSeq([i \in 1..Len(items) |-> CASE items[i].k = "include" -> << "#include <" \o items[i].header \o ">" >>
                                                         [] items[i].k = "namespace" -> AllIncludes(items[i].items)
                                                         [] OTHER -> <<>>])
\* every class of the module (ignored ones included) in declaration order, for the preamble
RECURSIVE AllClasses(_)
AllClasses(items) == FlatSeq([i \in 1..Len(items) |-> CASE items[i].k = "class" -> <<items[i]>>
                                                        [] items[i].k = "namespace" -> AllClasses(items[i].items)
                                                        [] OTHER -> <<>>])
Preamble(inst, ignore) ==
  LET cs == SelectSeq(AllClasses(inst), LAMBDA c : ~InSeq(IgnoreName(c), ignore)) IN
  [collectors |-> [i \in 1..Len(cs) |-> [cpp |-> CollectorCpp(cs[i]), name |-> Collector(cs[i])]],
   delete_loops |-> [i \in 1..Len(cs) |-> Collector(cs[i])],
   rtti |-> [i \in 1..Len(SelectSeq(cs, LAMBDA c : c.virtual)) |->
               [cpp |-> CollectorCpp(SelectSeq(cs, LAMBDA c : c.virtual)[i]),
                name |-> Collector(SelectSeq(cs, LAMBDA c : c.virtual)[i])]],
   guids |-> [i \in 1..Len(SelectSeq(cs, LAMBDA c : \E j \in 1..Len(c.methods) : c.methods[j].name \in Whitelist)) |->
                LET c == SelectSeq(cs, LAMBDA x : \E j \in 1..Len(x.methods) : x.methods[j].name \in Whitelist)[i] IN
                [cpp |-> CollectorCpp(c), name |-> Collector(c)]],
   typedefs |-> [i \in 1..Len(SelectSeq(cs, LAMBDA c : c.templated)) |->
                   [target |-> SelectSeq(cs, LAMBDA c : c.templated)[i].cpp, alias |-> SelectSeq(cs, LAMBDA c : c.templated)[i].name]]]
=============================================================================
