----------------------------- MODULE WrapTrace -----------------------------
(***************************************************************************)
(* Trace validation of recorded generator runs against Wrap.tla.  One      *)
(* record = one run of PybindWrapper.wrap or MatlabWrapper.wrap observed   *)
(* from outside (stage entry points and file-system calls wrapped by the   *)
(* harness, no hook in the repository): events Parse/Instantiate/Generate  *)
(* with their outcome, MakeDir and Write with the path relative to the     *)
(* build directory, Exit with the outcome of the run.  Every event must be *)
(* a step of Wrap: a Write before everything was generated, a failure      *)
(* after the first Write or MakeDir, an output written twice or an Exit    *)
(* with outputs missing cannot be matched and the trace is rejected.       *)
(***************************************************************************)
EXTENDS Wrap, Json, IOUtils, TLCExt
Batch == JsonDeserialize(IOEnv.TRACE_FILE)
VARIABLES tid, l
tvars == <<vars, tid, l>>
Live == tid <= Len(Batch)
Tr == Batch[tid]
Ev == Tr.events[l]
ToSet(s) == {s[i] : i \in DOMAIN s}
InputOf(t) == [parses |-> t.input.parses, instantiates |-> t.input.instantiates, generates |-> t.input.generates,
               outs |-> ToSet(t.input.outs)]
Dummy == [parses |-> FALSE, instantiates |-> FALSE, generates |-> FALSE, outs |-> {}]
WritesAfter(t, k) == LET names == [i \in DOMAIN t.events |-> t.events[i].name]
                         idx == SelectSeq([i \in DOMAIN t.events |-> i], LAMBDA i : i > k /\ t.events[i].ev = "Write")
                     IN [i \in DOMAIN idx |-> names[idx[i]]]
TraceInit == /\ tid = 1 /\ l = 1
             /\ InitWith(IF Len(Batch) >= 1 THEN InputOf(Batch[1]) ELSE Dummy)
Step == /\ Live /\ l <= Len(Tr.events)
        /\ \/ Ev.ev = "Parse" /\ Parse /\ (phase' = "parsed") = Ev.ok
           \/ Ev.ev = "Instantiate" /\ Instantiate /\ (phase' = "instantiated") = Ev.ok
           \/ Ev.ev = "Generate" /\ Generate(WritesAfter(Tr, l)) /\ (phase' = "generated") = Ev.ok
           \/ Ev.ev = "MakeDir" /\ MakeDir(Ev.name)
           \/ Ev.ev = "Write" /\ pending # <<>> /\ Head(pending) = Ev.name /\ Write
           \/ Ev.ev = "Exit" /\ Ev.ok /\ Finish
           \/ Ev.ev = "Exit" /\ ~Ev.ok /\ phase = "failed" /\ UNCHANGED vars
        /\ l' = l + 1 /\ tid' = tid
Advance(verdict) ==
  /\ PrintT(<<"VERDICT", Tr.id, verdict>>)
  /\ tid' = tid + 1 /\ l' = 1
  /\ phase' = "start" /\ files' = Files0 /\ dirs' = {} /\ pending' = <<>>
  /\ input' = IF tid + 1 <= Len(Batch) THEN InputOf(Batch[tid + 1]) ELSE Dummy
Finished == /\ Live /\ l > Len(Tr.events)
            /\ Advance(IF phase \in {"done", "failed"} THEN "" ELSE "trace-ends-in-phase-" \o phase)
Stuck == /\ Live /\ l <= Len(Tr.events) /\ ~ENABLED Step
         /\ Advance("no-step-of-Wrap-matches:" \o Ev.ev \o (IF Ev.ev \in {"Write", "MakeDir"} THEN "(" \o Ev.name \o ")" ELSE "")
                    \o "@" \o ToString(l) \o ":phase=" \o phase)
TraceNext == Step \/ Finished \/ Stuck
TraceSpec == TraceInit /\ [][TraceNext]_tvars
AllJudged == TLCGet("stats").diameter >= Len(Batch)
=============================================================================
