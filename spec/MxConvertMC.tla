---------------------------- MODULE MxConvertMC ----------------------------
EXTENDS MxConvert
CONSTANT MaxDim
ASSUME RoundTrip(MaxDim)
ASSUME ErrorTable(MaxDim)
ASSUME PrintT(<<"CASES", ToJson(Cases(MaxDim))>>)
ASSUME PrintT(<<"WRAPCASES", ToJson(WrapCases(MaxDim))>>)
=============================================================================
