---------------------------- MODULE RemovalTrace ----------------------------
(* For every derivation of a batch: the token sequences of the module with one declaration removed (C15). *)
EXTENDS Json, IOUtils, TLCExt, Iface
Batch == JsonDeserialize(IOEnv.TRACE_FILE)
VARIABLE pos
V(ob) == INSTANCE Variants WITH Caps <- ob.caps, Mode <- "spec"
Init == pos = 1
Next ==
  /\ pos <= Len(Batch)
  /\ PrintT(<<"REMOVALS", Batch[pos].id, ToJson(V(Batch[pos])!Removals(Batch[pos].cst))>>)
  /\ pos' = pos + 1
Spec == Init /\ [][Next]_pos
Accepted == TLCGet("stats").diameter - 1 = Len(Batch)
=============================================================================
