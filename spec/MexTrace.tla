------------------------------ MODULE MexTrace ------------------------------
(***************************************************************************)
(* Trace validation of a generated MATLAB toolbox.  One observation =      *)
(*   [id, inst, opts, files (scanned .m files), cpp (scanned MEX source)]  *)
(* The specification (Mex.tla) says which files, callables, overloads and  *)
(* routines must exist; this module checks the observed tables against it  *)
(* and, for C05, checks that the three id tables (call sites in .m files,  *)
(* cases of the switch, routines) agree with each other.  Every violated   *)
(* clause is reported, tagged with the property it belongs to.             *)
(***************************************************************************)
EXTENDS Mex, Json, IOUtils, TLCExt

Batch == JsonDeserialize(IOEnv.TRACE_FILE)
VARIABLE pos

If(c, msg) == IF c THEN <<>> ELSE <<msg>>
SeqToSet(s) == {s[i] : i \in 1..Len(s)}
Count(s, x) == Cardinality({i \in 1..Len(s) : s[i] = x})
Names(s) == [i \in 1..Len(s) |-> s[i].name]
SameBag(a, b) == Len(a) = Len(b) /\ \A x \in SeqToSet(a) \cup SeqToSet(b) : Count(a, x) = Count(b, x)

\* ---------------------------------------------------------------- call sites of the observed .m files
ClassSites(f) ==
     (IF f.ctor.virtual_form THEN << [id |-> f.ctor.upcast_id, file |-> f.path, role |-> "upcast", member |-> "", k |-> 0] >> ELSE <<>>)
  \o << [id |-> f.ctor.collector_id, file |-> f.path, role |-> "collector", member |-> "", k |-> 0] >>
  \o [i \in 1..Len(f.ctor.overloads) |-> [id |-> f.ctor.overloads[i].id, file |-> f.path, role |-> "constructor", member |-> "", k |-> i]]
  \o << [id |-> f.delete_id, file |-> f.path, role |-> "deconstructor", member |-> "", k |-> 0] >>
  \o FlatSeq([g \in 1..Len(f.methods) |->
        [i \in 1..Len(f.methods[g].overloads) |->
           [id |-> f.methods[g].overloads[i].id, file |-> f.path,
            role |-> IF f.methods[g].name = "string_serialize" THEN "serialize" ELSE "method",
            member |-> f.methods[g].name, k |-> i]]])
  \o [i \in 1..Len(f.getters) |-> [id |-> f.getters[i].id, file |-> f.path, role |-> "getter", member |-> f.getters[i].name, k |-> 0]]
  \o [i \in 1..Len(f.setters) |-> [id |-> f.setters[i].id, file |-> f.path, role |-> "setter", member |-> f.setters[i].name, k |-> 0]]
  \o FlatSeq([g \in 1..Len(f.statics) |->
        [i \in 1..Len(f.statics[g].overloads) |->
           [id |-> f.statics[g].overloads[i].id, file |-> f.path,
            role |-> IF f.statics[g].name = "string_deserialize" THEN "deserialize" ELSE "static",
            member |-> f.statics[g].name, k |-> i]]])
FuncSites(f) == [i \in 1..Len(f.overloads) |-> [id |-> f.overloads[i].id, file |-> f.path, role |-> "function", member |-> f.name, k |-> i]]
Sites(files) == FlatSeq([i \in 1..Len(files) |-> CASE files[i].kind = "class" -> ClassSites(files[i])
                                                   [] files[i].kind = "function" -> FuncSites(files[i])
                                                   [] OTHER -> <<>>])

\* ---------------------------------------------------------------- C05: the id tables agree
IdTables(sites, cpp) ==
  LET ids == [i \in 1..Len(sites) |-> sites[i].id]
      n == Len(sites)
      caseIds == [i \in 1..Len(cpp.cases) |-> cpp.cases[i].id]
      rnames == Names(cpp.routines)
  IN If(\A i \in 1..n : Count(ids, i - 1) = 1, "C05:call-site-ids-not-unique-and-contiguous-from-zero")
     \o If(SameBag(caseIds, ids), "C05:switch-cases-differ-from-call-site-ids")
     \o If(\A i \in 1..Len(rnames) : Count(rnames, rnames[i]) = 1, "C05:routine-defined-twice")
     \o If(\A i \in 1..Len(cpp.cases) : InSeq(cpp.cases[i].routine, rnames), "C05:case-calls-undefined-routine")
     \o If(\A i \in 1..Len(rnames) : Cardinality({j \in 1..Len(cpp.cases) : cpp.cases[j].routine = rnames[i]}) = 1,
           "C05:routine-not-reachable-from-exactly-one-case")

NoRoutine == [name |-> ""]
RoutineOfId(cpp, id) ==
  LET cs == SelectSeq(cpp.cases, LAMBDA c : c.id = id) IN
  IF Len(cs) # 1 THEN NoRoutine ELSE
  LET rs == SelectSeq(cpp.routines, LAMBDA r : r.name = cs[1].routine) IN IF Len(rs) # 1 THEN NoRoutine ELSE rs[1]

\* ---------------------------------------------------------------- a routine against the overload it must implement
ObsUnwraps(r) == [i \in 1..Len(r.unwraps) |-> [decl_type |-> r.unwraps[i].decl_type, var |-> r.unwraps[i].var, mode |-> r.unwraps[i].mode,
                                               type |-> r.unwraps[i].type, index |-> r.unwraps[i].index, ptr_name |-> r.unwraps[i].ptr_name]]
ObsOuts(r) == [i \in 1..Len(r.outs) |-> [index |-> r.outs[i].index, form |-> r.outs[i].form, type |-> r.outs[i].type, expr |-> r.outs[i].expr]]

CallRoutine(r, e, ov, where) ==
  \* identity (C05): the routine belongs to this class and member; marshalling (C06): everything else
  LET x == ov.r IN
     If(r.kind = "call", "C05:" \o where \o ":case-runs-routine-of-other-role")
  \o If(r.check.name = x.check.name, "C05:" \o where \o ":case-runs-routine-of-other-member")
  \o (IF x.kind = "method"
      THEN If(r.self_unwrap.cpp = e.cpp /\ r.self_unwrap.ptr = e.ptr_property, "C05:" \o where \o ":routine-unwraps-other-class")
      ELSE If(r.self_unwrap.cpp = "", "C05:" \o where \o ":routine-takes-an-object"))
  \o If(r.check.count = x.check.count /\ r.check.nargin_minus_1 = x.check.nargin_minus_1, "C06:" \o where \o ":expected-argument-count")
  \o If(ObsUnwraps(r) = x.unwraps, "C06:" \o where \o ":unwrapping-of-arguments")
  \o (IF r.call = x.call \o "(" \o x.params \o ")" THEN <<>>
      ELSE IF x.devcall # "" /\ r.call = x.devcall \o "(" \o x.params \o ")" THEN <<"C06:" \o where \o ":call-expression/" \o x.devclass>>
      ELSE <<"C06:" \o where \o ":call-expression">>)
  \o If(r.pair = x.pair /\ r.void_call = x.void, "C06:" \o where \o ":return-shape")
  \o (IF ObsOuts(r) = x.outs THEN <<>>
      ELSE IF x.devcall # "" /\ ObsOuts(r) = x.devouts THEN <<"C06:" \o where \o ":return-wrapping/" \o x.devclass>>
      ELSE <<"C06:" \o where \o ":return-wrapping">>)

SiteRoutine(cpp, id, where) == IF RoutineOfId(cpp, id).name = "" THEN <<"C05:" \o where \o ":id-without-unique-routine">> ELSE <<>>

\* ---------------------------------------------------------------- one class file
GuardOf(o) == [nargs |-> o.nvarargin, checks |-> o.checks, varargout |-> o.varargout]
ExpGuard(ov) == ov.m

ClassClauses(o, e, cpp) ==
  LET w == e.name
      realMethods == SelectSeq(o.methods, LAMBDA m : m.name \notin {"string_serialize", "saveobj"})
      realStatics == SelectSeq(o.statics, LAMBDA m : m.name \notin {"string_deserialize", "loadobj"})
      coll == RoutineOfId(cpp, o.ctor.collector_id)
      del == RoutineOfId(cpp, o.delete_id)
  IN
     (IF o.name = e.name /\ o.parent = e.parent THEN <<>>
      ELSE IF o.name = e.name /\ e.parentdev # "" /\ o.parent = e.parentdev THEN <<"C10:" \o w \o ":classdef-name-or-base/TemplatedBaseSpelledAsCppInClassdef">>
      ELSE <<"C10:" \o w \o ":classdef-name-or-base">>)
  \o If(o.properties = e.properties /\ o.ptr_property = e.ptr_property /\ o.delete_ptr = e.ptr_property, "C10:" \o w \o ":pointer-property-or-properties")
  \o If(o.ctor.virtual_form = e.virtual /\ o.ctor.collector_has_base = e.hasbase
        /\ o.ctor.base_call = (IF e.hasbase THEN e.parent ELSE ""), "C10:" \o w \o ":constructor-frame")
  \o If(o.has_display, "C10:" \o w \o ":display")
  \o If(SameBag(Names(realMethods), Names(e.methods)), "C10:" \o w \o ":one-method-per-distinct-method-name")
  \o If(SameBag(Names(realStatics), Names(e.statics)), "C10:" \o w \o ":one-static-per-distinct-static-name")
  \o If(Names(o.getters) = e.getters /\ Names(o.setters) = e.setters, "C10:" \o w \o ":property-accessors")
  \o If(e.serialize = InSeq("string_serialize", Names(o.methods)) /\ e.serialize = InSeq("string_deserialize", Names(o.statics)),
        "C10:" \o w \o ":serialization-methods")
  \* constructors: arities and guards
  \o If(Len(o.ctor.overloads) = Len(e.ctors), "C06:" \o w \o ":constructor-arities")
  \o FlatSeq([i \in 1..(IF Len(o.ctor.overloads) < Len(e.ctors) THEN Len(o.ctor.overloads) ELSE Len(e.ctors)) |->
        LET oo == o.ctor.overloads[i] ee == e.ctors[i] r == RoutineOfId(cpp, oo.id) where == w \o ".ctor#" \o ToString(i) IN
           If(oo.nargin = ee.m.nargs /\ oo.checks = ee.m.checks /\ oo.nargs_passed = ee.m.nargs, "C06:" \o where \o ":guard")
        \o If(oo.outputs = (IF e.hasbase THEN "[ my_ptr, base_ptr ]" ELSE "my_ptr"), "C10:" \o where \o ":outputs")
        \o (IF r.name = "" THEN <<"C05:" \o where \o ":id-without-unique-routine">>
            ELSE If(r.kind = "constructor" /\ r.collector = e.collector /\ r.new_expr.cpp = e.cpp /\ r.shared_typedef = e.cpp,
                    "C05:" \o where \o ":case-runs-routine-of-other-class-or-role")
              \o If(ObsUnwraps(r) = ee.r.unwraps, "C06:" \o where \o ":unwrapping-of-arguments")
              \o If(r.new_expr.args = ee.r.params, "C06:" \o where \o ":call-expression")
              \o If((r.base_typedef = e.parentcpp) /\ (e.hasbase => r.base_out_index = 1), "C10:" \o where \o ":base-pointer"))])
  \* collector / upcast / destructor
  \o (IF coll.name = "" THEN <<"C05:" \o w \o ".collector:id-without-unique-routine">>
      ELSE If(coll.kind = "collector" /\ coll.collector = e.collector /\ coll.shared_typedef = e.cpp
              /\ coll.base_typedef = e.parentcpp, "C05:" \o w \o ".collector:case-runs-routine-of-other-class-or-role"))
  \o (IF e.virtual /\ o.ctor.virtual_form
      THEN LET up == RoutineOfId(cpp, o.ctor.upcast_id) IN
           IF up.name = "" THEN <<"C05:" \o w \o ".upcast:id-without-unique-routine">>
           ELSE If(up.kind = "upcast" /\ up.shared_typedef = e.cpp, "C05:" \o w \o ".upcast:case-runs-routine-of-other-class-or-role")
      ELSE <<>>)
  \o (IF del.name = "" THEN <<"C05:" \o w \o ".delete:id-without-unique-routine">>
      ELSE If(del.kind = "deconstructor" /\ del.collector = e.collector /\ del.shared_typedef = e.cpp,
              "C05:" \o w \o ".delete:case-runs-routine-of-other-class-or-role"))
  \* methods and statics: per name, overloads in order
  \o FlatSeq([g \in 1..Len(e.methods) |->
        LET em == e.methods[g]
            oms == SelectSeq(o.methods, LAMBDA m : m.name = em.name)
        IN IF Len(oms) # 1 THEN <<>>
           ELSE If(Len(oms[1].overloads) = Len(em.overloads), "C06:" \o w \o "." \o em.name \o ":arities")
                \o FlatSeq([i \in 1..(IF Len(oms[1].overloads) < Len(em.overloads) THEN Len(oms[1].overloads) ELSE Len(em.overloads)) |->
                      LET where == w \o "." \o em.name \o "#" \o ToString(i) r == RoutineOfId(cpp, oms[1].overloads[i].id) IN
                         If(GuardOf(oms[1].overloads[i]) = ExpGuard(em.overloads[i]), "C06:" \o where \o ":guard")
                      \o (IF r.name = "" THEN <<"C05:" \o where \o ":id-without-unique-routine">> ELSE CallRoutine(r, e, em.overloads[i], where))])])
  \o FlatSeq([g \in 1..Len(e.statics) |->
        LET em == e.statics[g]
            oms == SelectSeq(o.statics, LAMBDA m : m.name = em.name)
        IN IF Len(oms) # 1 THEN <<>>
           ELSE If(Len(oms[1].overloads) = Len(em.overloads), "C06:" \o w \o "." \o em.name \o ":arities")
                \o FlatSeq([i \in 1..(IF Len(oms[1].overloads) < Len(em.overloads) THEN Len(oms[1].overloads) ELSE Len(em.overloads)) |->
                      LET where == w \o "." \o em.name \o "#" \o ToString(i) r == RoutineOfId(cpp, oms[1].overloads[i].id) IN
                         If(GuardOf(oms[1].overloads[i]) = ExpGuard(em.overloads[i]), "C06:" \o where \o ":guard")
                      \o (IF r.name = "" THEN <<"C05:" \o where \o ":id-without-unique-routine">> ELSE CallRoutine(r, e, em.overloads[i], where))])])
  \* property accessors
  \o FlatSeq([i \in 1..(IF Len(o.getters) = Len(e.props) THEN Len(e.props) ELSE 0) |->
        LET p == e.props[i] gr == RoutineOfId(cpp, o.getters[i].id)
            where == w \o "." \o p.name IN
        (IF gr.name = "" THEN <<"C05:" \o where \o ".get:id-without-unique-routine">>
         ELSE If(gr.kind = "call" /\ gr.self_unwrap.cpp = e.cpp /\ gr.check.name = p.name /\ gr.check.count = 0 /\ gr.call = "obj->" \o p.name,
                 "C05:" \o where \o ".get:case-runs-routine-of-other-member")
           \o If(ObsOuts(gr) = <<p.getter_out>>, "C06:" \o where \o ".get:return-wrapping"))])
  \o FlatSeq([i \in 1..(IF Len(o.setters) = Len(e.setters) THEN Len(e.setters) ELSE 0) |->
        LET p == SelectSeq(e.props, LAMBDA q : ~q.const)[i] sr == RoutineOfId(cpp, o.setters[i].id)
            where == w \o "." \o p.name IN
        (IF sr.name = "" THEN <<"C05:" \o where \o ".set:id-without-unique-routine">>
         ELSE If(sr.kind = "call" /\ sr.self_unwrap.cpp = e.cpp /\ sr.check.name = p.name /\ sr.check.count = 1,
                 "C05:" \o where \o ".set:case-runs-routine-of-other-member")
           \o If(ObsUnwraps(sr) = <<p.setter_unwrap>> /\ sr.call = p.setter_assign, "C06:" \o where \o ".set:marshalling"))])

FuncClauses(o, e, cpp) ==
  If(Len(o.overloads) = Len(e.overloads), "C06:" \o e.name \o ":arities")
  \o FlatSeq([i \in 1..(IF Len(o.overloads) < Len(e.overloads) THEN Len(o.overloads) ELSE Len(e.overloads)) |->
        LET where == e.name \o "#" \o ToString(i) r == RoutineOfId(cpp, o.overloads[i].id) IN
           If(GuardOf(o.overloads[i]) = ExpGuard(e.overloads[i]), "C06:" \o where \o ":guard")
        \o (IF r.name = "" THEN <<"C05:" \o where \o ":id-without-unique-routine">> ELSE CallRoutine(r, [cpp |-> "", ptr_property |-> ""], e.overloads[i], where))])

EnumClauses(o, e) == If(o.name = e.name /\ o.enumerators = e.enumerators, "C10:" \o e.name \o ":enumerators-numbered-in-declared-order")

FixedIncludes == {"#include <gtwrap/matlab.h>", "#include <map>", "#include <boost/archive/text_iarchive.hpp>",
                  "#include <boost/archive/text_oarchive.hpp>", "#include <boost/serialization/export.hpp>"}
\* ---------------------------------------------------------------- the whole toolbox
Clauses(ob) ==
  LET classes == Classes(ob.inst, ob.opts.ignore, ob.opts.ser)
      funcs == Functions(ob.inst, <<>>)
      enums == NsEnumFiles(ob.inst, <<>>) \o FlatSeq([i \in 1..Len(classes) |-> classes[i].enums])
      expFiles == classes \o funcs \o enums
      expPaths == [i \in 1..Len(expFiles) |-> expFiles[i].path]
      obsPaths == [i \in 1..Len(ob.files) |-> ob.files[i].path]
      pre == Preamble(ob.inst, ob.opts.ignore)
      sites == Sites(ob.files)
      find(path) == SelectSeq(ob.files, LAMBDA f : f.path = path)
  IN If(SameBag(expPaths, obsPaths), "C10:toolbox-files-differ-from-declared-artefacts")
     \o If(ob.ncpp = 1, "C10:not-exactly-one-mex-source")
     \o IdTables(sites, ob.cpp)
     \o FlatSeq([i \in 1..Len(expFiles) |->
          LET e == expFiles[i] os == find(e.path) IN
          IF Len(os) # 1 \/ os[1].kind # e.kind THEN <<>>
          ELSE CASE e.kind = "class" -> ClassClauses(os[1], e, ob.cpp)
                 [] e.kind = "function" -> FuncClauses(os[1], e, ob.cpp)
                 [] e.kind = "enum" -> EnumClauses(os[1], e)])
     \o If([i \in 1..Len(ob.cpp.collectors) |-> [cpp |-> ob.cpp.collectors[i].cpp, name |-> ob.cpp.collectors[i].name]] = pre.collectors,
           "C10:collectors-differ-from-classes")
     \o If(ob.cpp.delete_loops = pre.delete_loops, "C10:unload-does-not-free-every-collector")
     \o If(ob.cpp.delete_loops = pre.delete_loops, "C11:unload-does-not-free-every-collector")
     \* (the clauses above hold the generator to ITS enum rule; where that rule falls short of the property the verified
     \*  behaviour is the recorded deviation)
     \o [i \in 1..Len(EnumGaps(ob.inst, <<>>, EnumCpps(ob.inst, <<>>), ob.opts.ignore)) |->
           "C06:" \o EnumGaps(ob.inst, <<>>, EnumCpps(ob.inst, <<>>), ob.opts.ignore)[i]
           \o ":enum-not-marshalled-as-enum/EnumOutsideClassBlockMarshalledAsObject"]
     \o If([i \in 1..Len(ob.cpp.rtti) |-> [cpp |-> ob.cpp.rtti[i].cpp, name |-> ob.cpp.rtti[i].name]] = pre.rtti, "C10:rtti-entries-differ-from-virtual-classes")
     \o If([i \in 1..Len(ob.cpp.export_guids) |-> [cpp |-> ob.cpp.export_guids[i].cpp, name |-> ob.cpp.export_guids[i].name]]
           = (IF ob.opts.ser THEN pre.guids ELSE <<>>), "C10:serialization-export-guids")
     \o If(SameBag(SelectSeq(ob.cpp.includes, LAMBDA l : l \notin FixedIncludes), AllIncludes(ob.inst)), "C10:includes-differ-from-declared")
     \o If([i \in 1..Len(ob.cpp.typedefs) |-> [target |-> ob.cpp.typedefs[i].target, alias |-> ob.cpp.typedefs[i].alias]] = pre.typedefs,
           "C10:typedefs-of-instantiations")

Init == pos = 1
Next ==
  /\ pos <= Len(Batch)
  /\ PrintT(<<"VERDICT", Batch[pos].id, ToJson(Clauses(Batch[pos]))>>)
  /\ pos' = pos + 1
Spec == Init /\ [][Next]_pos
Accepted == TLCGet("stats").diameter - 1 = Len(Batch)
=============================================================================
