---------------------------- MODULE PyCallPlan ----------------------------
(* Batch front end of PyCall: one observation = [id, inst, lex]; TLC prints the session plan of each module. *)
EXTENDS Json, IOUtils, TLCExt, Iface
Batch == JsonDeserialize(IOEnv.TRACE_FILE)
VARIABLE pos
P(ob) == INSTANCE PyCall WITH Lex <- ob.lex
Init == pos = 1
Next ==
  /\ pos <= Len(Batch)
  /\ PrintT(<<"PLAN", Batch[pos].id, ToJson(P(Batch[pos])!Plan(Batch[pos].inst))>>)
  /\ PrintT(<<"FACTS", Batch[pos].id, ToJson(P(Batch[pos])!Facts(Batch[pos].inst))>>)
  /\ pos' = pos + 1
Spec == Init /\ [][Next]_pos
Accepted == TLCGet("stats").diameter - 1 = Len(Batch)
=============================================================================
