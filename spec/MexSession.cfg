SPECIFICATION Spec
CONSTANTS
  MaxSteps = 14
  MaxObjs = 6
  Exhaustive = FALSE
INVARIANT OneEntryPerLevel
INVARIANT NoOrphanEntries
INVARIANT HandlesKeepAlive
INVARIANT UnloadFreesAll
INVARIANT Emit
CHECK_DEADLOCK FALSE
