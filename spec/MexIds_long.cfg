SPECIFICATION Spec
CONSTANTS
  MaxClasses = 4
  MaxCtors = 1
  MaxMethods = 0
  MaxProps = 0
  MaxStatics = 0
  MaxFuncs = 1
INVARIANT Consistent
CHECK_DEADLOCK FALSE
