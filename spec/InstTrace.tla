----------------------------- MODULE InstTrace -----------------------------
(***************************************************************************)
(* Oracle run for the instantiator: for every observation [id, tree, caps] *)
(* of a batch, emit what Instantiate!InstModule says the instantiated      *)
(* module must be (Mode = "spec") or what the analysed deviations of the   *)
(* pinned tree would produce (Mode = "dev", used only to classify).        *)
(***************************************************************************)
EXTENDS Json, IOUtils, TLCExt, Iface
CONSTANT Mode
Batch == JsonDeserialize(IOEnv.TRACE_FILE)
VARIABLE pos
I(ob) == INSTANCE Instantiate WITH Caps <- ob.caps, Mode <- Mode
Init == pos = 1
Next ==
  /\ pos <= Len(Batch)
  /\ PrintT(<<"INST", Batch[pos].id, ToJson(I(Batch[pos])!InstModule(Batch[pos].tree))>>)
  /\ pos' = pos + 1
Spec == Init /\ [][Next]_pos
Accepted == TLCGet("stats").diameter - 1 = Len(Batch)
=============================================================================
