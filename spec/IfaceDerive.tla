---------------------------- MODULE IfaceDerive ----------------------------
(***************************************************************************)
(* Derivation machine of the interface dialect.  A behaviour writes an     *)
(* interface file declaration by declaration; the state holds, in lock     *)
(* step, the token sequence written so far (`toks`) and the stack of open  *)
(* scopes with the concrete syntax nodes completed so far (`stack`).       *)
(* At `Finish` the machine emits (tokens, CST, AIT): the input for the     *)
(* implementation and the tree `Module.parseString` must return for it.    *)
(*                                                                         *)
(* What is derived is chosen by the constant operators below, which the    *)
(* model modules (IfaceSim: random walks with RandomElement; IfaceExh*:    *)
(* exhaustive focused universes) define.                                   *)
(***************************************************************************)
EXTENDS Iface, Json

CONSTANTS
  NsChoices(_),      \* ctx -> set of namespace names that may be opened here
  ClassChoices(_),   \* ctx -> set of class headers (ClassN with members = <<>>) that may be opened here
  MemberChoices(_),  \* ctx -> set of members that may be added to the open class
  LeafChoices(_),    \* ctx -> set of leaf declarations that may be added to the open namespace
  Target,            \* number of declarations after which the derivation only closes scopes
  MinDecls,          \* a derivation may finish once it has this many declarations
  MaxNsDepth,        \* bound on namespace nesting
  MaxMembers         \* bound on members per class

VARIABLES stack, toks, mode, cnt

vars == <<stack, toks, mode, cnt>>

Top == stack[Len(stack)]

\* context handed to the choice operators
NsPath == [i \in 1..(Len(SelectSeq(stack, LAMBDA s : s.k = "namespace")) - 1) |->
             SelectSeq(stack, LAMBDA s : s.k = "namespace")[i + 1].name]
Ctx == [nspath |-> NsPath,
        cls    |-> IF Top.k = "class" THEN Top.name ELSE "",
        tparams |-> IF Top.k = "class" THEN {Top.tmpl[i].name : i \in 1..Len(Top.tmpl)} ELSE {},
        nmembers |-> IF Top.k = "class" THEN Len(Top.members) ELSE 0,
        cnt    |-> cnt,
        items  |-> IF Top.k = "namespace" THEN Top.items ELSE <<>>,   \* what the open namespace holds so far
        nitems |-> LET RECURSIVE NI(_)
                       NI(items) == IF items = <<>> THEN 0
                                    ELSE (IF Head(items).k = "namespace" THEN 1 + NI(Head(items).items) ELSE 1) + NI(Tail(items))
                       RECURSIVE SumOpen(_)
                       SumOpen(i) == IF i = 0 THEN 0
                                     ELSE (IF stack[i].k = "class" THEN 1 ELSE NI(stack[i].items) + (IF i = 1 THEN 0 ELSE 1))
                                          + SumOpen(i - 1)
                   IN SumOpen(Len(stack)),   \* declarations at namespace level (a class counts once)
        depth  |-> Len(stack)]

AppendToTop(s, d) ==
  [s EXCEPT ![Len(s)] = IF @.k = "class" THEN [@ EXCEPT !.members = Append(@, d)]
                        ELSE [@ EXCEPT !.items = Append(@, d)]]
Pop(s) == AppendToTop(SubSeq(s, 1, Len(s) - 1), s[Len(s)])

Growing == mode = "open" /\ cnt < Target

Init ==
  /\ stack = << NsN("", <<>>) >>
  /\ toks = <<>>
  /\ mode = "open"
  /\ cnt = 0

OpenNs(n) ==
  /\ Growing /\ Top.k = "namespace" /\ Len(stack) <= MaxNsDepth
  /\ stack' = Append(stack, NsN(n, <<>>))
  /\ toks' = toks \o <<"namespace", n, "{">>
  /\ cnt' = cnt + 1
  /\ UNCHANGED mode

CloseNs ==
  /\ mode = "open" /\ Top.k = "namespace" /\ Len(stack) > 1
  /\ stack' = Pop(stack)
  /\ toks' = toks \o <<"}">>
  /\ UNCHANGED <<mode, cnt>>

OpenClass(h) ==
  /\ Growing /\ Top.k = "namespace"
  /\ stack' = Append(stack, h)
  /\ toks' = toks \o RenderClassOpen(h)
  /\ cnt' = cnt + 1
  /\ UNCHANGED mode

AddMember(m) ==
  /\ Growing /\ Top.k = "class" /\ Len(Top.members) < MaxMembers
  /\ stack' = AppendToTop(stack, m)
  /\ toks' = toks \o RenderMember(m)
  /\ cnt' = cnt + 1
  /\ UNCHANGED mode

CloseClass ==
  /\ mode = "open" /\ Top.k = "class"
  /\ stack' = Pop(stack)
  /\ toks' = toks \o RenderClassClose
  /\ UNCHANGED <<mode, cnt>>

AddLeaf(d) ==
  /\ Growing /\ Top.k = "namespace"
  /\ stack' = AppendToTop(stack, d)
  /\ toks' = toks \o RenderLeaf(d)
  /\ cnt' = cnt + (IF d.k = "class" THEN 1 + Len(d.members) ELSE 1)   \* a whole class counts its members
  /\ UNCHANGED mode

\* what a finished derivation hands to the harness
Case == [toks |-> toks, cst |-> stack[1].items, tree |-> AbsItems(stack[1].items)]

Finish ==
  /\ mode = "open" /\ Len(stack) = 1 /\ cnt >= MinDecls
  /\ mode' = "closed"
  /\ PrintT(<<"CASE", ToJson(Case)>>)
  /\ UNCHANGED <<stack, toks, cnt>>

Next ==
  \/ \E n \in NsChoices(Ctx) : OpenNs(n)
  \/ (Growing /\ Top.k = "namespace" /\ \E h \in ClassChoices(Ctx) : OpenClass(h))
  \/ (Growing /\ Top.k = "class" /\ \E m \in MemberChoices(Ctx) : AddMember(m))
  \/ (Growing /\ Top.k = "namespace" /\ \E d \in LeafChoices(Ctx) : AddLeaf(d))
  \/ (cnt > 0 /\ CloseNs)
  \/ CloseClass
  \/ Finish

Spec == Init /\ [][Next]_vars

---------------------------------------------------------------------------
\* Invariants of the machine itself: they make the emitted tree a trustworthy oracle.
RenderOpenScope(s) ==
  IF s.k = "class" THEN RenderClassOpen(s) \o RenderMembers(s.members)
  ELSE (IF s.name = "" THEN <<>> ELSE <<"namespace", s.name, "{">>) \o RenderItems(s.items)
RenderOpen(st) == FlatSeq([i \in 1..Len(st) |-> RenderOpenScope(st[i])])

\* incremental rendering = recursive rendering of the open scopes
InvRender == toks = RenderOpen(stack)

\* number of declarations in the scopes = number of derivation steps that declared something
RECURSIVE CountItems(_)
CountDecl(d) == IF d.k = "namespace" THEN 1 + CountItems(d.items)
                ELSE IF d.k = "class" THEN 1 + Len(d.members) ELSE 1
CountItems(items) == IF items = <<>> THEN 0 ELSE CountDecl(Head(items)) + CountItems(Tail(items))
CountOpen(st) == LET c(i) == IF st[i].k = "class" THEN Len(st[i].members) + 1
                             ELSE CountItems(st[i].items) + (IF i = 1 THEN 0 ELSE 1)
                 IN  IF Len(st) = 0 THEN 0
                     ELSE LET RECURSIVE Sum(_)
                              Sum(i) == IF i = 0 THEN 0 ELSE c(i) + Sum(i - 1)
                          IN Sum(Len(st))
InvCount == cnt = CountOpen(stack)

\* the outermost scope is the module; classes are never nested in classes
InvShape == /\ stack[1].k = "namespace" /\ stack[1].name = ""
            /\ \A i \in 1..Len(stack) : stack[i].k = "class" => i = Len(stack)

\* a closed derivation is balanced, complete, and its AIT explains its tokens
InvClosed == mode = "closed" =>
  /\ Len(stack) = 1
  /\ Balanced(toks)
  /\ toks = RenderItems(stack[1].items)
  /\ Explains(AbsItems(stack[1].items), toks)
=============================================================================
