SPECIFICATION LSpec
CONSTANTS
  NsChoices <- ExhNsChoices
  ClassChoices <- ExhClassChoices
  MemberChoices <- ExhMemberChoices
  LeafChoices <- ExhLeafChoices
  Universe = "ns"
  TypeDepth0 = 0
  MaxArgs = 0
  Target = 1
  MinDecls = 1
  MaxNsDepth = 1
  MaxMembers = 1
  Trivia = {"", " ", "c", "cpp"}
  Fuses <- NeverFuses
PROPERTY LayoutIsStuttering
INVARIANT InvRender
CHECK_DEADLOCK FALSE
CONSTRAINT SmallGaps
