---------------------------- MODULE VariantTrace ----------------------------
EXTENDS Json, IOUtils, TLCExt, Iface
Batch == JsonDeserialize(IOEnv.TRACE_FILE)
VARIABLE pos
V(ob) == INSTANCE Variants WITH Caps <- ob.caps, Mode <- "spec"
Init == pos = 1
Out(ob) ==
  [reversed |-> RenderItems(V(ob)!AllReversed(ob.cst)),
   renamed  |-> RenderItems(V(ob)!AllRenamed(ob.cst)),
   renamed2 |-> RenderItems(V(ob)!AllRenamed2(ob.cst)),
   single1  |-> RenderItems(V(ob)!AllSingle(ob.cst, 1)),
   single2  |-> RenderItems(V(ob)!AllSingle(ob.cst, 2)),
   single3  |-> RenderItems(V(ob)!AllSingle(ob.cst, 3))]
Next ==
  /\ pos <= Len(Batch)
  /\ PrintT(<<"VARIANTS", Batch[pos].id, ToJson(Out(Batch[pos]))>>)
  /\ pos' = pos + 1
Spec == Init /\ [][Next]_pos
Accepted == TLCGet("stats").diameter - 1 = Len(Batch)
=============================================================================
