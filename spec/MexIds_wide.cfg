SPECIFICATION Spec
CONSTANTS
  MaxClasses = 1
  MaxCtors = 3
  MaxMethods = 3
  MaxProps = 2
  MaxStatics = 2
  MaxFuncs = 2
INVARIANT Consistent
CHECK_DEADLOCK FALSE
