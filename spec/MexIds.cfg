SPECIFICATION Spec
CONSTANTS
  MaxClasses = 2
  MaxCtors = 1
  MaxMethods = 1
  MaxProps = 1
  MaxStatics = 1
  MaxFuncs = 1
INVARIANT Consistent
CHECK_DEADLOCK FALSE
