----------------------------- MODULE MexSession -----------------------------
(***************************************************************************)
(* C11: a MATLAB session driving the generated MEX gateway of the          *)
(* interface harness/mexmock/session/session1.i (three-level virtual chain *)
(* Base <- Mid <- Leaf, unrelated class Other, ns::Inner, free functions). *)
(*                                                                         *)
(* State                                                                   *)
(*   objs     C++ objects: id -> [cls, id (constructor argument), w, n,    *)
(*            name]  (the fields the instrumented library echoes)          *)
(*   handles  MATLAB variables: var -> [mclass, obj, dangling]             *)
(*   coll     collector entries: set of <<var, level>> - one heap          *)
(*            shared_ptr per inheritance level of each MATLAB handle       *)
(*   unloaded the module's exit function has run                           *)
(* An object is alive iff some collector entry (heap shared_ptr) points to *)
(* it.  Every action states the gateway's result, the library call it must *)
(* cause (entity and argument values, defaults included) and leaves the    *)
(* ownership invariants to be checked in every state.                      *)
(***************************************************************************)
EXTENDS Naturals, Sequences, FiniteSets, TLC, Json

CONSTANTS MaxSteps, MaxObjs, Exhaustive     \* Exhaustive = FALSE: every choice is one random draw (simulation)
VARIABLES objs, handles, coll, unloaded, nextobj, nextres, trace, snaps, doublefree
vars == <<objs, handles, coll, unloaded, nextobj, nextres, trace, snaps, doublefree>>

Chain(c) == CASE c = "Leaf" -> <<"Leaf", "Mid", "Base">> [] c = "Mid" -> <<"Mid", "Base">> [] c = "Base" -> <<"Base">>
              [] c = "Other" -> <<"Other">> [] c = "ns.Inner" -> <<"ns.Inner">>
IsA(c, t) == \E i \in 1..Len(Chain(c)) : Chain(c)[i] = t
CollName(l) == IF l = "ns.Inner" THEN "nsInner" ELSE l
LibClass(c) == IF c = "ns.Inner" THEN "Inner" ELSE c
Levels(c) == {Chain(c)[i] : i \in 1..Len(Chain(c))}

Ints == {"1", "2", "7"}
Vars == {"a", "b", "c", "d"}
Choices(S) == IF Exhaustive THEN S ELSE {RandomElement(S)}

Refs(o) == Cardinality({e \in coll : handles[e[1]].obj = o})
Alive(o) == Refs(o) > 0
LiveCount(cls) == Cardinality({o \in DOMAIN objs : objs[o].cls = cls /\ Alive(o)})
Usable(v) == v \in DOMAIN handles /\ ~handles[v].dangling
FreeVars == Vars \ DOMAIN handles

Init == objs = <<>> /\ handles = <<>> /\ coll = {} /\ unloaded = FALSE /\ nextobj = 1 /\ nextres = 1 /\ trace = <<>> /\ snaps = <<>> /\ doublefree = FALSE

Obj(cls, id, w, n, name) == [cls |-> cls, id |-> id, w |-> w, n |-> n, name |-> name]
\* expected observation of one step
Ev(cmd, result, log, newobj) == [cmd |-> cmd, result |-> result, log |-> log, newobj |-> newobj]
Record(e) == trace' = Append(trace, e)
Room == Len(trace) < MaxSteps

AddHandle(v, mclass, o) ==
  /\ handles' = [x \in DOMAIN handles \cup {v} |-> IF x = v THEN [mclass |-> mclass, obj |-> o, dangling |-> FALSE] ELSE handles[x]]
  /\ coll' = coll \cup {<<v, l>> : l \in Levels(mclass)}

\* ---- construction -----------------------------------------------------------------------------------------------
New(v, cls, args, id, w, n, name, logentry) ==
  /\ Room /\ v \in FreeVars /\ nextobj <= MaxObjs
  /\ objs' = [o \in DOMAIN objs \cup {nextobj} |-> IF o = nextobj THEN Obj(LibClass(cls), id, w, n, name) ELSE objs[o]]
  /\ AddHandle(v, cls, nextobj)
  /\ nextobj' = nextobj + 1
  /\ Record(Ev(<<"new", v, cls>> \o args, "obj:" \o v \o ":" \o cls, <<logentry>>, nextobj))
  /\ UNCHANGED <<unloaded, nextres>>

NewAny ==
  \E v \in Choices(Vars), k \in Choices(1..8), i \in Choices(Ints) :      \* (random draws are bound by \E: a LET inside an action is re-evaluated at every use)
    CASE k = 1 -> New(v, "Base", <<>>, "0", "", "", "", "Base::Base#0()")
      [] k = 2 -> New(v, "Base", <<"i:" \o i>>, i, "", "", "", "Base::Base#1(" \o i \o ")")
      [] k = 3 -> New(v, "Mid", <<"i:" \o i>>, i, "", "", "", "Mid::Mid#0(" \o i \o ")")
      [] k = 4 -> New(v, "Leaf", <<"i:" \o i, "d:3">>, i, "3", "", "", "Leaf::Leaf#0(" \o i \o ",3)")
      [] k = 5 -> New(v, "Leaf", <<"i:" \o i>>, i, "1.5", "", "", "Leaf::Leaf#0(" \o i \o ",1.5)")      \* default w = 1.5
      [] k = 6 -> New(v, "Other", <<>>, "", "", "", "other", "Other::Other#0()")
      [] k = 7 -> New(v, "ns.Inner", <<>>, "", "", "3", "", "ns::Inner::Inner#0(3)")                     \* default n = 3
      [] k = 8 -> New(v, "ns.Inner", <<"i:" \o i>>, "", "", i, "", "ns::Inner::Inner#0(" \o i \o ")")

\* ---- calls that return plain values -----------------------------------------------------------------------------
Plain(cmd, result, log) ==
  /\ Room /\ Record(Ev(cmd, result, log, 0))
  /\ UNCHANGED <<objs, handles, coll, unloaded, nextobj, nextres>>

CallPlain ==
  \E v \in Choices(DOMAIN handles \cup {"none"}) :
    /\ v # "none" /\ Usable(v)
    /\ \E k \in Choices(1..12), i \in Choices(Ints), u \in Choices({x \in DOMAIN handles : Usable(x)}) :
       LET h == handles[v] o == objs[h.obj] IN
          CASE k = 1 /\ IsA(h.mclass, "Base") -> Plain(<<"call", v, "id">>, "num:" \o o.id, <<"Base::id(" \o o.id \o ")">>)
            [] k = 2 /\ IsA(h.mclass, "Base") -> Plain(<<"call", v, "addTo", "i:" \o i>>, "num:10",
                                                        <<"Base::addTo(" \o o.id \o "," \o i \o ",10)">>)           \* default y = 10
            [] k = 3 /\ IsA(h.mclass, "Base") -> Plain(<<"call", v, "addTo", "i:" \o i, "i:2">>, "num:2",
                                                        <<"Base::addTo(" \o o.id \o "," \o i \o ",2)">>)
            [] k = 4 /\ IsA(h.mclass, "Base") /\ IsA(handles[u].mclass, "Base") ->
                 Plain(<<"call", v, "absorb", "o:" \o u>>, "", <<"Base::absorb(" \o o.id \o "," \o objs[handles[u].obj].id \o ")">>)
            [] k = 5 /\ IsA(h.mclass, "Base") /\ IsA(handles[u].mclass, "Base") ->
                 Plain(<<"call", v, "weigh", "o:" \o u>>, "num:2.5",
                       <<"Base::weigh(" \o o.id \o "," \o objs[handles[u].obj].id \o ",2.5)">>)                      \* default k = 2.5
            [] k = 6 /\ IsA(h.mclass, "Mid") -> Plain(<<"call", v, "twice">>, "num:" \o o.id, <<"Mid::twice(" \o o.id \o ")">>)
            [] k = 7 /\ IsA(h.mclass, "Leaf") -> Plain(<<"call", v, "weight">>, "num:" \o o.w, <<"Leaf::weight(" \o o.id \o ")">>)
            [] k = 8 /\ IsA(h.mclass, "Leaf") -> Plain(<<"call", v, "both">>, "num:" \o o.id \o " num:" \o o.w, <<"Leaf::both(" \o o.id \o ")">>)
            [] k = 9 /\ h.mclass = "Other" -> Plain(<<"call", v, "name">>, "str:" \o o.name, <<"Other::name(" \o o.name \o ")">>)
            [] k = 10 /\ h.mclass = "Other" /\ IsA(handles[u].mclass, "Base") ->
                 Plain(<<"call", v, "probe", "o:" \o u>>, "num:" \o objs[handles[u].obj].id,
                       <<"Other::probe(" \o objs[handles[u].obj].id \o ")">>)                                         \* raw pointer argument
            [] k = 11 /\ h.mclass = "ns.Inner" -> Plain(<<"call", v, "n">>, "num:" \o o.n, <<"ns::Inner::n(" \o o.n \o ")">>)
            [] k = 12 /\ h.mclass = "ns.Inner" /\ handles[u].mclass = "ns.Inner" ->
                 Plain(<<"call", v, "same", "o:" \o u>>, IF o.n = objs[handles[u].obj].n THEN "num:1" ELSE "num:0",
                       <<"ns::Inner::same(" \o o.n \o "," \o objs[handles[u].obj].n \o ")">>)
            [] OTHER -> FALSE

StaticPlain ==
  \E k \in Choices(1..2) :
  CASE k = 1 -> Plain(<<"static", "Other", "Count">>, "num:42", <<"Other::Count()">>)
    [] k = 2 -> \E v \in Choices(DOMAIN handles \cup {"none"}), u \in Choices(DOMAIN handles \cup {"none"}) :
                  /\ v # "none" /\ u # "none" /\ Usable(v) /\ Usable(u)
                  /\ IsA(handles[v].mclass, "Base") /\ IsA(handles[u].mclass, "Base")
                  /\ Plain(<<"func", "sumIds", "o:" \o v, "o:" \o u>>, "num:" \o objs[handles[v].obj].id,
                           <<"sumIds(" \o objs[handles[v].obj].id \o "," \o objs[handles[u].obj].id \o ")">>)

\* ---- properties -------------------------------------------------------------------------------------------------
\* (tag / gain are plain fields of the library objects; a set followed by a get must read the value back)
SetGet ==
  \E v \in Choices(DOMAIN handles \cup {"none"}) :
    /\ v # "none" /\ Usable(v) /\ Len(trace) + 1 < MaxSteps
    /\ \E i \in Choices(Ints) :
       IF IsA(handles[v].mclass, "Base")
       THEN trace' = trace \o << Ev(<<"set", v, "tag", "i:" \o i>>, "", <<>>, 0), Ev(<<"get", v, "tag">>, "num:" \o i, <<>>, 0) >>
       ELSE IF handles[v].mclass = "Other"
       THEN trace' = trace \o << Ev(<<"set", v, "gain", "d:" \o i>>, "", <<>>, 0), Ev(<<"get", v, "gain">>, "num:" \o i, <<>>, 0) >>
       ELSE FALSE
    /\ UNCHANGED <<objs, handles, coll, unloaded, nextobj, nextres>>

\* ---- calls that return objects ----------------------------------------------------------------------------------
ResVar == "r" \o ToString(nextres)
\* a handle to an EXISTING object comes back (static MATLAB class of the declared return type)
ReturnExisting(cmd, mclass, o, log) ==
  /\ Room
  /\ handles' = [x \in DOMAIN handles \cup {ResVar} |-> IF x = ResVar THEN [mclass |-> mclass, obj |-> o, dangling |-> FALSE] ELSE handles[x]]
  /\ coll' = coll \cup {<<ResVar, l>> : l \in Levels(mclass)}
  /\ nextres' = nextres + 1
  /\ Record(Ev(cmd, "obj:" \o ResVar \o ":" \o mclass, log, o))
  /\ UNCHANGED <<objs, unloaded, nextobj>>
\* a NEW object comes back
ReturnNew(cmd, mclass, newo, log) ==
  /\ Room /\ nextobj <= MaxObjs
  /\ objs' = [o \in DOMAIN objs \cup {nextobj} |-> IF o = nextobj THEN newo ELSE objs[o]]
  /\ handles' = [x \in DOMAIN handles \cup {ResVar} |-> IF x = ResVar THEN [mclass |-> mclass, obj |-> nextobj, dangling |-> FALSE] ELSE handles[x]]
  /\ coll' = coll \cup {<<ResVar, l>> : l \in Levels(mclass)}
  /\ nextres' = nextres + 1 /\ nextobj' = nextobj + 1
  /\ Record(Ev(cmd, "obj:" \o ResVar \o ":" \o mclass, log, nextobj))
  /\ UNCHANGED unloaded

CallObject ==
  \E k \in Choices(1..6), i \in Choices(Ints), v \in Choices(DOMAIN handles \cup {"none"}) :
    CASE k = 6 -> /\ v # "none" /\ Usable(v) /\ handles[v].mclass = "Other"      \* `Other& me()`: MATLAB receives a COPY it owns
                  /\ ReturnNew(<<"call", v, "me">>, "Other", objs[handles[v].obj], <<"Other::me(" \o objs[handles[v].obj].name \o ")">>)
      [] k = 1 -> /\ v # "none" /\ Usable(v) /\ IsA(handles[v].mclass, "Base")
                  /\ ReturnExisting(<<"call", v, "self">>, "Base", handles[v].obj, <<"Base::self(" \o objs[handles[v].obj].id \o ")">>)
      [] k = 2 -> \E kind \in Choices({"0", "1", "2"}) :
                  ReturnNew(<<"static", "Mid", "Make", "i:" \o kind, "i:" \o i>>, "Base",
                            Obj(IF kind = "0" THEN "Base" ELSE IF kind = "1" THEN "Mid" ELSE "Leaf", i, IF kind = "2" THEN "0.5" ELSE "", "", ""),
                            <<"Mid::Make(" \o kind \o "," \o i \o ")">> \o (IF kind = "2" THEN <<"Leaf::Leaf#0(" \o i \o ",0.5)">> ELSE <<>>))
      [] k = 3 -> /\ v # "none" /\ Usable(v) /\ handles[v].mclass = "Other"
                  /\ ReturnNew(<<"call", v, "twin">>, "Other", objs[handles[v].obj], <<"Other::twin(" \o objs[handles[v].obj].name \o ")">>)
      [] k = 4 -> ReturnNew(<<"func", "ns.makeInner", "i:" \o i>>, "ns.Inner", Obj("Inner", "", "", i, ""),
                            <<"ns::makeInner(" \o i \o ")", "ns::Inner::Inner#0(" \o i \o ")">>)
      [] k = 5 -> /\ v # "none" /\ Usable(v) /\ IsA(handles[v].mclass, "Mid")
                  /\ ReturnExisting(<<"func", "pick", "o:" \o v>>, "Base", handles[v].obj,
                                    <<"pick(" \o objs[handles[v].obj].id \o ",1)">>)                                  \* default asBase = true

\* ---- deletion and unloading --------------------------------------------------------------------------------------
Del ==
  \E v \in Choices(DOMAIN handles \cup {"none"}) :
    /\ v # "none" /\ Usable(v) /\ Room
    /\ handles' = [x \in DOMAIN handles \ {v} |-> handles[x]]
    /\ coll' = {e \in coll : e[1] # v}
    /\ Record(Ev(<<"del", v>>, "", <<>>, 0))
    /\ UNCHANGED <<objs, unloaded, nextobj, nextres>>

\* _deleteAllObjects: every collector entry is deleted; MATLAB variables that still exist are left dangling
Unload ==
  /\ Room /\ \E r \in Choices(1..6) : r = 1
  /\ coll' = {}
  /\ handles' = [x \in DOMAIN handles |-> [handles[x] EXCEPT !.dangling = TRUE]]
  /\ unloaded' = TRUE
  /\ Record(Ev(<<"unload">>, "", <<>>, 0))
  /\ UNCHANGED <<objs, nextobj, nextres>>

Act == NewAny \/ CallPlain \/ StaticPlain \/ SetGet \/ CallObject \/ Del \/ Unload

---------------------------------------------------------------------------
\* C11 invariants
\* every usable MATLAB handle owns exactly one collector entry per level of its class
OneEntryPerLevel == \A v \in DOMAIN handles : Usable(v) => \A l \in Levels(handles[v].mclass) : <<v, l>> \in coll
\* no entry without a handle (nothing is kept alive by a forgotten entry), i.e. deletion released it exactly once
NoOrphanEntries == \A e \in coll : e[1] \in DOMAIN handles /\ e[2] \in Levels(handles[e[1]].mclass)
\* an object designated by a usable handle is alive
HandlesKeepAlive == \A v \in DOMAIN handles : Usable(v) => Alive(handles[v].obj)
\* unloading releases everything that remains
UnloadFreesAll == (unloaded /\ coll = {}) => \A o \in DOMAIN objs : ~Alive(o) \/ \E v \in DOMAIN handles : Usable(v) /\ handles[v].obj = o

\* what the harness compares after every step: live objects per library class and collector sizes
Snapshot ==
  [live |-> [c \in {"Base", "Mid", "Leaf", "Other", "Inner"} |-> LiveCount(c)],
   coll |-> [l \in {"Base", "Mid", "Leaf", "Other", "ns.Inner"} |-> Cardinality({e \in coll : e[2] = l})],
   alive |-> {o \in DOMAIN objs : Alive(o)}]
\* every step also records the snapshot of the state it leads to (one per event it appended)
Next == Act /\ snaps' = snaps \o [i \in 1..(Len(trace') - Len(trace)) |-> Snapshot'] /\ UNCHANGED doublefree
Spec == Init /\ [][Next]_vars
Emit == (Len(trace) >= MaxSteps) => PrintT(<<"SESSION", ToJson([trace |-> trace, snaps |-> snaps])>>)
\* ---- the hazard of the generated destructor routine (known finding): after the exit function has deleted every heap
\* pointer, MATLAB still destroys the surviving variables, and `delete self` runs on a pointer that was already freed
DelDangling ==
  /\ \E v \in DOMAIN handles : handles[v].dangling /\ handles' = [x \in DOMAIN handles \ {v} |-> handles[x]]
  /\ doublefree' = TRUE
  /\ UNCHANGED <<objs, coll, unloaded, nextobj, nextres, trace, snaps>>
HazardNext == Next \/ DelDangling
HazardSpec == Init /\ [][HazardNext]_vars
NoDoubleFree == ~doublefree

=============================================================================
