SPECIFICATION Spec
CONSTANTS
  NsChoices <- ExhNsChoices
  ClassChoices <- ExhClassChoices
  MemberChoices <- ExhMemberChoices
  LeafChoices <- ExhLeafChoices
  Universe = "ns"
  TypeDepth0 = 0
  RichArgs = FALSE
  MaxItems = 3
  MaxArgs = 0
  Target = 3
  MinDecls = 1
  MaxNsDepth = 3
  MaxMembers = 1
INVARIANT InvRender
INVARIANT InvCount
INVARIANT InvShape
INVARIANT InvClosed
CHECK_DEADLOCK FALSE
