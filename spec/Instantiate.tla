----------------------------- MODULE Instantiate -----------------------------
(***************************************************************************)
(* Template instantiation (C02, C08, C13) as operators over the abstract   *)
(* interface tree.                                                         *)
(*   Subst        exact, capture-free substitution, expressed directly on  *)
(*                C++ spellings: only the HEAD component of a qualified     *)
(*                name can be a parameter (T, T::Value) or `This`           *)
(*   Product      Cartesian product, first list slowest                    *)
(*   InstItems    the instantiated content of a namespace: instantiations  *)
(*                in place of their template, typedef instantiations       *)
(*                appended at the end, everything else passed through      *)
(* The *Dev operators transcribe analysed deviations of the pinned         *)
(* implementation; they exist only to give "the same defect" a formal      *)
(* meaning when a known finding is matched (DESIGN.md 5.2).                *)
(***************************************************************************)
EXTENDS Iface

CONSTANT Mode      \* "spec": what the property demands; "dev": the analysed behaviour of the pinned tree (classification)
CONSTANT Caps      \* lexical fact supplied by the harness: identifier -> identifier with its first letter upper-cased

RECURSIVE JoinStr(_, _)
JoinStr(ss, sep) == IF Len(ss) = 0 THEN "" ELSE IF Len(ss) = 1 THEN ss[1] ELSE ss[1] \o sep \o JoinStr(Tail(ss), sep)

Last(s) == s[Len(s)]
Front(s) == SubSeq(s, 1, Len(s) - 1)

---------------------------------------------------------------------------
\* C++ spellings
RECURSIVE CppTN(_)
\* a typename as written in C++: ns::Name<Arg, Arg>
CppTN(t) == JoinStr(t.qn, "::") \o
            (IF Len(t.args) = 0 THEN "" ELSE "<" \o JoinStr([i \in 1..Len(t.args) |-> CppTN(t.args[i])], ", ") \o ">")

Qualify(c, q, inner) ==
  (IF c THEN "const " ELSE "") \o
  (CASE q = "*" -> "std::shared_ptr<" \o inner \o ">" [] q = "@" -> inner \o "*" [] q = "&" -> inner \o "&"
     [] OTHER -> inner)

\* env : [names : Seq(STRING), vals : Seq(typename)]; the first binding of a name wins
NoEnv == [names |-> <<>>, vals |-> <<>>]
Bound(env, n) == \E i \in 1..Len(env.names) : env.names[i] = n
Lookup(env, n) == env.vals[CHOOSE i \in 1..Len(env.names) : env.names[i] = n /\ \A j \in 1..(i - 1) : env.names[j] # n]
ExtendEnv(env, names, vals) == [names |-> env.names \o names, vals |-> env.vals \o vals]

RECURSIVE NameS(_, _, _), FullS(_, _, _)
\* the substituted spelling of a type without its own qualifiers
NameS(t, env, this) ==
  LET h == t.qn[1]
      rest == Tail(t.qn)
      restS == IF rest = <<>> THEN "" ELSE "::" \o JoinStr(rest, "::")
      own == IF Len(t.args) = 0 THEN ""
             ELSE "<" \o JoinStr([i \in 1..Len(t.args) |-> FullS(t.args[i], env, this)], ", ") \o ">"
  IN IF ~t.basic /\ Bound(env, h) THEN CppTN(Lookup(env, h)) \o restS \o own
     ELSE IF h = "This" /\ this # NoType THEN CppTN(this) \o restS \o own
     ELSE JoinStr(t.qn, "::") \o own
FullS(t, env, this) == Qualify(t.const, t.q, NameS(t, env, this))

\* substituted type as observed: spelling + the qualifier flags of the object
NoST == [cpp |-> "", const |-> FALSE, q |-> "", cls |-> ""]

\* does the type mention a parameter / This anywhere (used for coverage accounting and classification)
RECURSIVE Mentions(_, _)
Mentions(t, names) == (~t.basic /\ t.qn[1] \in names) \/ \E i \in 1..Len(t.args) : Mentions(t.args[i], names)

---------------------------------------------------------------------------
\* analysed behaviour of the pinned implementation (helpers.instantiate_type), for classification only.
\* It rewrites (1) first-level template arguments whose LAST component is a parameter, then (2) if the typename
\* view contains a parameter as ANY '::' component of the top-level name: scoped rewrite; (3) exact match;
\* (4) This; (5) This as a namespace component (class spelled without its namespaces) / in a first-level argument.
\* Deeper occurrences are left alone.  Returned: [cpp, cls] with cls naming the deviation ("" = agrees with Subst).
ParamNames(env) == {env.names[i] : i \in 1..Len(env.names)}

RECURSIVE RawS(_)
\* spelling with no substitution at all
RawS(t) == Qualify(t.const, t.q, JoinStr(t.qn, "::") \o
             (IF Len(t.args) = 0 THEN "" ELSE "<" \o JoinStr([i \in 1..Len(t.args) |-> RawS(t.args[i])], ", ") \o ">"))

\* first-level argument as the implementation spells it
ArgDev(a, env, this) ==
  LET nm == Last(a.qn)
      hasThisNs == Len(a.qn) > 1 /\ \E k \in 1..(Len(a.qn) - 1) : a.qn[k] = "This"
      front == [k \in 1..(Len(a.qn) - 1) |-> IF a.qn[k] = "This" /\ this # NoType THEN CppTN(this) ELSE a.qn[k]]
      rawargs == IF Len(a.args) = 0 THEN "" ELSE "<" \o JoinStr([i \in 1..Len(a.args) |-> RawS(a.args[i])], ", ") \o ">"
  IN IF Bound(env, nm) /\ ~a.basic
     THEN Qualify(a.const, a.q, JoinStr(front \o <<CppTN(Lookup(env, nm))>>, "::") \o rawargs)
     ELSE IF hasThisNs THEN Qualify(a.const, a.q, JoinStr(front \o <<nm>>, "::") \o rawargs)
     ELSE RawS(a)

ThisNoNs == "ThisScopedLosesEnclosingNamespace"
DeepClass == "ParamBelowFirstLevelUnsubstituted"

TypeDev(t, env, this) ==
  LET ps == ParamNames(env)
      correct == FullS(t, env, this)
      args == IF Len(t.args) = 0 THEN ""
              ELSE "<" \o JoinStr([i \in 1..Len(t.args) |-> ArgDev(t.args[i], env, this)], ", ") \o ">"
      comps == t.qn
      scoped == Len(comps) > 1 /\ comps[1] \in ps      \* T::Value - substituted correctly since the scoped-template fix
      thisNs == Len(t.args) = 0 /\ Len(comps) > 1 /\ \E k \in 1..(Len(comps) - 1) : comps[k] = "This"
      thisS == JoinStr([k \in 1..Len(comps) |-> IF comps[k] = "This" THEN Last(this.qn) \o
                          (IF Len(this.args) = 0 THEN "" ELSE "<" \o JoinStr([i \in 1..Len(this.args) |-> CppTN(this.args[i])], ", ") \o ">")
                        ELSE comps[k]], "::")
      dev == IF t.basic THEN correct
             ELSE IF scoped /\ Len(t.args) = 0 THEN correct
             ELSE IF Len(comps) = 1 /\ Len(t.args) = 0 /\ comps[1] \in ps THEN correct
             ELSE IF comps = <<"This">> /\ Len(t.args) = 0 THEN correct
             ELSE IF thisNs /\ this # NoType THEN Qualify(t.const, t.q, thisS)
             ELSE Qualify(t.const, t.q, JoinStr(comps, "::") \o args)
  IN [cpp |-> dev,
      cls |-> IF dev = correct THEN ""
              ELSE IF thisNs THEN ThisNoNs
              ELSE IF \E i \in 1..Len(t.args) : Len(t.args[i].qn) > 1 /\ Bound(env, Last(t.args[i].qn))
                   THEN "QualifiedArgLastComponentRewritten"
              ELSE DeepClass]

ST(t, env, this) ==
  IF Mode = "dev" THEN [cpp |-> TypeDev(t, env, this).cpp, const |-> t.const, q |-> t.q, cls |-> TypeDev(t, env, this).cls]
  ELSE [cpp |-> FullS(t, env, this), const |-> t.const, q |-> t.q, cls |-> ""]
\* dunder methods are copied, not instantiated, by the pinned tree
STDunder(t, env, this) ==
  ST(t, env, this)     \* (dunder arguments are instantiated since the corresponding fix)
BaseS(t, env, this) ==
  IF Mode = "dev" THEN JoinStr(t.qn, "::") \o
       (IF Len(t.args) = 0 THEN "" ELSE "<" \o JoinStr([i \in 1..Len(t.args) |->
            IF Bound(env, Last(t.args[i].qn)) THEN JoinStr(Front(t.args[i].qn) \o <<CppTN(Lookup(env, Last(t.args[i].qn)))>>, "::")
            ELSE CppTN(t.args[i])], ", ") \o ">")
  ELSE NameS(t, env, this)

---------------------------------------------------------------------------
\* naming
RECURSIVE InstNameOf(_)
InstNameOf(tn) == Last(tn.qn) \o JoinStr([i \in 1..Len(tn.args) |-> InstNameOf(tn.args[i])], "")
Cap(s) == Caps[s]
InstSuffix(vals) == JoinStr([i \in 1..Len(vals) |-> Cap(InstNameOf(vals[i]))], "")

RECURSIVE Product(_)
\* Cartesian product of a sequence of sequences, first sequence varying slowest
Product(lists) ==
  IF lists = <<>> THEN << <<>> >>
  ELSE LET rest == Product(Tail(lists))
           hd == Head(lists)
       IN FlatSeq([i \in 1..Len(hd) |-> [j \in 1..Len(rest) |-> <<hd[i]>> \o rest[j]]])

TmplNames(tm) == [i \in 1..Len(tm) |-> tm[i].name]
TmplLists(tm) == [i \in 1..Len(tm) |-> tm[i].insts]

---------------------------------------------------------------------------
\* members
IArg(a, env, this) == [t |-> ST(a.t, env, this), name |-> a.name, hasdef |-> a.hasdef, def |-> a.def]
IArgs(args, env, this) == [i \in 1..Len(args) |-> IArg(args[i], env, this)]
IRet(r, env, this) == [pair |-> r.pair, t1 |-> ST(r.t1, env, this),
                       t2 |-> IF r.pair THEN ST(r.t2, env, this) ELSE NoST]

\* the instantiations of one callable member under the class environment: one per combination of its own lists
Combos(m) == IF m.tmpl = <<>> THEN << <<>> >> ELSE Product(TmplLists(m.tmpl))
MemberCpp(m, vals) == IF m.tmpl = <<>> THEN m.name
                      ELSE m.name \o "<" \o JoinStr([i \in 1..Len(vals) |-> CppTN(vals[i])], ",") \o ">"

ICtors(c, cname, env, this) ==
  FlatSeq([i \in 1..Len(c.ctors) |->
    LET m == c.ctors[i] cs == Combos(m) IN
    [j \in 1..Len(cs) |->
       [k |-> "ctor", name |-> cname, args |-> IArgs(m.args, ExtendEnv(env, TmplNames(m.tmpl), cs[j]), this)]]])
IMethods(c, env, this) ==
  FlatSeq([i \in 1..Len(c.methods) |->
    LET m == c.methods[i] cs == Combos(m) IN
    [j \in 1..Len(cs) |->
       LET e2 == ExtendEnv(env, TmplNames(m.tmpl), cs[j]) IN
       [k |-> "method", name |-> m.name \o InstSuffix(cs[j]), cpp |-> MemberCpp(m, cs[j]),
        ret |-> IRet(m.ret, e2, this), args |-> IArgs(m.args, e2, this), const |-> m.const]]])
IStatics(c, env, this) ==
  FlatSeq([i \in 1..Len(c.statics) |->
    LET m == c.statics[i] cs == Combos(m) IN
    [j \in 1..Len(cs) |->
       LET e2 == ExtendEnv(env, TmplNames(m.tmpl), cs[j]) IN
       [k |-> "static", name |-> m.name \o InstSuffix(cs[j]), cpp |-> MemberCpp(m, cs[j]),
        ret |-> IRet(m.ret, e2, this), args |-> IArgs(m.args, e2, this)]]])

\* one instantiation of a class: vals bind the class-level parameters; newname # "" for typedef instantiations
IClass(c, nspath, vals, newname) ==
  LET env == [names |-> TmplNames(c.tmpl), vals |-> vals]
      this == TN(nspath \o <<c.name>>, vals)
      name == IF newname # "" THEN newname ELSE c.name \o InstSuffix(vals)
  IN [k |-> "class", name |-> name, cpp |-> CppTN(this), virtual |-> c.virtual, hasbase |-> c.hasbase,
      base |-> IF c.hasbase THEN BaseS(c.base, env, this) ELSE "",
      ctors |-> ICtors(c, name, env, this),
      methods |-> IMethods(c, env, this),
      statics |-> IStatics(c, env, this),
      props |-> [i \in 1..Len(c.props) |-> [k |-> "prop", t |-> ST(c.props[i].t, env, this), name |-> c.props[i].name,
                                            hasdef |-> c.props[i].hasdef, def |-> c.props[i].def]],
      ops |-> [i \in 1..Len(c.ops) |-> [k |-> "operator", op |-> c.ops[i].op, ret |-> IRet(c.ops[i].ret, env, this),
                                        args |-> IArgs(c.ops[i].args, env, this), const |-> c.ops[i].const]],
      dunders |-> [i \in 1..Len(c.dunders) |-> [k |-> "dunder", name |-> c.dunders[i].name,
                                                args |-> [j \in 1..Len(c.dunders[i].args) |->
                                                   LET a == c.dunders[i].args[j] IN
                                                   [t |-> STDunder(a.t, env, this), name |-> a.name,
                                                    hasdef |-> a.hasdef, def |-> a.def]]]],
      enums |-> c.enums]

IClassAll(c, nspath) ==
  IF c.tmpl = <<>> THEN << IClass(c, nspath, <<>>, "") >>
  ELSE LET cs == Product(TmplLists(c.tmpl)) IN [j \in 1..Len(cs) |-> IClass(c, nspath, cs[j], "")]

IFunc(f, vals, newname) ==
  LET env == [names |-> TmplNames(f.tmpl), vals |-> vals] IN
  [k |-> "function", name |-> IF newname # "" THEN newname ELSE f.name \o InstSuffix(vals),
   cpp |-> MemberCpp(f, vals),
   ret |-> IRet(f.ret, env, NoType), args |-> IArgs(f.args, env, NoType)]
IFuncAll(f) ==
  IF f.tmpl = <<>> THEN << IFunc(f, <<>>, "") >>
  ELSE LET cs == Product(TmplLists(f.tmpl)) IN [j \in 1..Len(cs) |-> IFunc(f, cs[j], "")]

---------------------------------------------------------------------------
\* typedef resolution: look the qualified name up from the top-level namespace
RECURSIVE SubNamespaces(_, _)
\* all namespace item lists reached from `items` by following `path` (a namespace may be re-opened)
SubNamespaces(items, path) ==
  IF path = <<>> THEN << items >>
  ELSE LET nss == SelectSeq(items, LAMBDA d : d.k = "namespace" /\ d.name = Head(path))
       IN FlatSeq([i \in 1..Len(nss) |-> SubNamespaces(nss[i].items, Tail(path))])

DeclName(d) == IF d.k = "fwd" THEN Last(d.qn) ELSE d.name
Candidates(top, qn) ==
  LET scopes == SubNamespaces(top, Front(qn)) IN
  FlatSeq([i \in 1..Len(scopes) |->
             SelectSeq(scopes[i], LAMBDA d : d.k \in {"class", "function", "fwd"} /\ DeclName(d) = Last(qn))])

\* the (unique) candidate lives in the namespace Front(qn): that is the template's namespace
ITypedef(td, top) ==
  LET cands == Candidates(top, td.t.qn) IN
  IF Len(cands) # 1 THEN << [k |-> "error", what |-> "typedef-target-not-unique"] >>
  ELSE LET d == cands[1] IN
       CASE d.k = "class" ->
              IF d.tmpl = <<>> THEN << [k |-> "undefined", what |-> "typedef-of-non-template"] >>   \* outside the dialect
              ELSE IF Len(d.tmpl) # Len(td.t.args) THEN << [k |-> "error", what |-> "typedef-arity"] >>
              ELSE << IClass(d, Front(td.t.qn), td.t.args, td.newname) >>
         [] d.k = "function" ->
              IF d.tmpl = <<>> THEN << [k |-> "undefined", what |-> "typedef-of-non-template"] >>
              ELSE IF Len(d.tmpl) # Len(td.t.args) THEN << [k |-> "undefined", what |-> "function-typedef-arity"] >>
              ELSE << IFunc(d, td.t.args, td.newname) >>
         [] d.k = "fwd" ->
              << [k |-> "fwdinst", name |-> td.newname,
                  cpp |-> JoinStr(Front(td.t.qn) \o <<Last(d.qn)>>, "::") \o "<" \o
                          JoinStr([i \in 1..Len(td.t.args) |-> CppTN(td.t.args[i])], ",") \o ">"] >>

RECURSIVE InstItems(_, _, _)
\* the instantiated content of one namespace (items), `top` = the items of the global namespace
InstItems(items, top, nspath) ==
  LET main == FlatSeq([i \in 1..Len(items) |->
                 LET d == items[i] IN
                 CASE d.k = "class"     -> IClassAll(d, nspath)
                   [] d.k = "function"  -> IFuncAll(d)
                   [] d.k = "typedef"   -> <<>>
                   [] d.k = "namespace" -> << [k |-> "namespace", name |-> d.name,
                                               items |-> InstItems(d.items, top, nspath \o <<d.name>>)] >>
                   [] OTHER             -> << d >>])
      tds == FlatSeq([i \in 1..Len(items) |-> IF items[i].k = "typedef" THEN ITypedef(items[i], top) ELSE <<>>])
  IN main \o tds

InstModule(tree) == InstItems(tree, tree, <<>>)

RECURSIVE HasError(_)
HasError(items) == \E i \in 1..Len(items) :
                      items[i].k = "error" \/ (items[i].k = "namespace" /\ HasError(items[i].items))

\* ---------------------------------------------------------------- spec-level laws (C08 / C13), checked by TLC
\* number of instantiations of a template = product of its list lengths
RECURSIVE ProdLen(_)
ProdLen(lists) == IF lists = <<>> THEN 1 ELSE Len(Head(lists)) * ProdLen(Tail(lists))
LawProductCount(lists) == Len(Product(lists)) = ProdLen(lists)
\* first list slowest: the combination at index (i-1)*|rest| + j takes lists[1][i]
LawProductOrder(lists) ==
  lists # <<>> =>
    LET rest == ProdLen(Tail(lists)) IN
    \A i \in 1..Len(Head(lists)), j \in 1..rest : Product(lists)[(i - 1) * rest + j][1] = Head(lists)[i]
\* C13: the instantiation for one argument list does not depend on the other requested instantiations
LawIndependent(c, nspath) ==
  LET all == IClassAll(c, nspath) cs == Product(TmplLists(c.tmpl)) IN
  \A j \in 1..Len(cs) :
     all[j] = IClassAll([c EXCEPT !.tmpl = [i \in 1..Len(c.tmpl) |-> TP(c.tmpl[i].name, <<cs[j][i]>>)]], nspath)[1]
=============================================================================
