----------------------------- MODULE SplitTrace -----------------------------
EXTENDS Json, IOUtils, TLCExt, Compose
Batch == JsonDeserialize(IOEnv.TRACE_FILE)
VARIABLE pos
Init == pos = 1
Next ==
  /\ pos <= Len(Batch)
  /\ Assert(LawSplit(Batch[pos].cst), "LawSplit")
  /\ PrintT(<<"SPLITS", Batch[pos].id,
              ToJson([splits |-> Splits(Batch[pos].cst),
                      decls |-> SubmodDecls(Batch[pos].stems), inits |-> SubmodInits(Batch[pos].stems),
                      maindef |-> MainDef(Batch[pos].name),
                      subdefs |-> [i \in 1..Len(Batch[pos].stems) |-> SubDef(Batch[pos].stems[i])],
                      topoption |-> TopOption(Batch[pos].top), apitop |-> ApiTop(Batch[pos].top)])>>)
  /\ pos' = pos + 1
Spec == Init /\ [][Next]_pos
Accepted == TLCGet("stats").diameter - 1 = Len(Batch)
=============================================================================
