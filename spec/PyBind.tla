------------------------------- MODULE PyBind -------------------------------
(***************************************************************************)
(* The pybind11 generator (C03, C04 static half, C09 static clauses, C15,  *)
(* C16) as a registration machine.                                         *)
(*                                                                         *)
(* Expected(inst, opts) is the sequence of registrations the generated     *)
(* translation unit must perform for the instantiated tree `inst` under    *)
(* options opts = [top, ignore, ser, hasdoc].  The machine consumes the    *)
(* registration events scanned from the real output:                      *)
(*    DefSubmodule(e)   enabled iff e.var is not yet created, its parent   *)
(*                      is, and the namespace it stands for is expected    *)
(*    Register(e)       enabled iff e is a pending expected binding and    *)
(*                      the module variable it is placed in exists         *)
(* The order of registrations is free; acceptance requires that nothing    *)
(* remains pending.                                                        *)
(***************************************************************************)
EXTENDS Iface

CONSTANTS Lex     \* lexical facts supplied by the harness: [lower : identifier -> lower-cased identifier]

RECURSIVE JoinStr(_, _)
JoinStr(ss, sep) == IF Len(ss) = 0 THEN "" ELSE IF Len(ss) = 1 THEN ss[1] ELSE ss[1] \o sep \o JoinStr(Tail(ss), sep)
Last(s) == s[Len(s)]
IsPrefix(p, s) == Len(p) <= Len(s) /\ \A i \in 1..Len(p) : p[i] = s[i]
\* remove the first occurrence of x from sequence s
RECURSIVE RemoveFirst(_, _)
RemoveFirst(s, x) == IF s = <<>> THEN <<>> ELSE IF Head(s) = x THEN Tail(s) ELSE <<Head(s)>> \o RemoveFirst(Tail(s), x)
InSeq(x, s) == \E i \in 1..Len(s) : s[i] = x

PythonKeywords == {"lambda", "False", "def", "if", "raise", "None", "del", "import", "return", "True", "elif", "in",
                   "try", "and", "else", "is", "while", "as", "except", "with", "assert", "finally", "nonlocal",
                   "yield", "break", "for", "not", "class", "from", "or", "continue", "global", "pass"}
IPythonSpecial == {"svg", "png", "jpeg", "html", "javascript", "markdown", "latex"}

---------------------------------------------------------------------------
\* naming
ModVar(nspath, top) == "m_" \o JoinStr(SubSeq(nspath, Len(top) + 1, Len(nspath)), "_")
PartialMatch(nspath, top) == \A i \in 1..(IF Len(nspath) < Len(top) THEN Len(nspath) ELSE Len(top)) : nspath[i] = top[i]
Inside(nspath, top) == IsPrefix(top, nspath)
NsPrefix(nspath) == IF nspath = <<>> THEN "" ELSE JoinStr(nspath, "::") \o "::"

MethodPyName(name, cpp) ==
  LET n1 == IF cpp \in IPythonSpecial THEN "_repr_" \o cpp \o "_" ELSE name IN
  IF n1 \in PythonKeywords THEN n1 \o "_" ELSE n1
FuncPyName(name) == IF name \in PythonKeywords \cup {"print"} THEN name \o "_" ELSE name

PyArgs(args) == [i \in 1..Len(args) |-> [name |-> args[i].name, hasdef |-> args[i].hasdef, def |-> args[i].def]]
Params(args) == [i \in 1..Len(args) |-> [type |-> args[i].t.cpp, name |-> args[i].name]]
ArgNames(args) == [i \in 1..Len(args) |-> args[i].name]
IsVoid(ret) == ~ret.pair /\ ret.t1.cpp = "void"

---------------------------------------------------------------------------
\* expected registrations of one class
DefEv(cls, static, pyname, params, ret, callee, callargs, args, redirect) ==
  [ev |-> "def", cls |-> cls, static |-> static, pyname |-> pyname, params |-> params, ret |-> ret,
   callee |-> callee, callargs |-> callargs, args |-> args, redirect |-> redirect, special |-> ""]
\* registrations whose lambda body is a fixed text pattern (recognised by the scanner as `special`)
SpecialEv(cls, pyname, params, args, special, callee, callargs) ==
  [ev |-> "def", cls |-> cls, static |-> FALSE, pyname |-> pyname, params |-> params, ret |-> FALSE,
   callee |-> callee, callargs |-> callargs, args |-> args, redirect |-> FALSE, special |-> special]

SelfParam(cpp) == [type |-> cpp \o "*", name |-> "self"]

MethodEvs(c, m, static, ser, suffix) ==
  \* suffix # "" only for the gtsam::Values insert special case
  LET pyname == MethodPyName(m.name \o suffix, m.cpp)
      main == IF static
              THEN DefEv(c.cpp, TRUE, pyname, Params(m.args), ~IsVoid(m.ret), c.cpp \o "::" \o m.cpp,
                         ArgNames(m.args), PyArgs(m.args), FALSE)
              ELSE DefEv(c.cpp, FALSE, pyname, <<SelfParam(c.cpp)>> \o Params(m.args), ~IsVoid(m.ret),
                         "self->" \o m.cpp, ArgNames(m.args), PyArgs(m.args), m.name = "print")
  IN IF m.cpp \in {"serialize", "serializable"}
     THEN IF ser THEN << SpecialEv(c.cpp, "serialize", <<SelfParam(c.cpp)>>, <<>>, "serialize", "", <<>>),
                         SpecialEv(c.cpp, "deserialize",
                                   <<SelfParam(c.cpp), [type |-> "string", name |-> "serialized"]>>,
                                   <<[name |-> "serialized", hasdef |-> FALSE, def |-> ""]>>, "deserialize", "", <<>>),
                         [ev |-> "pickle", cls |-> c.cpp, wellformed |-> TRUE] >>
          ELSE <<>>
     ELSE IF m.name = "print" /\ ~static
     THEN << main, SpecialEv(c.cpp, "__repr__",
                             <<[type |-> "const " \o c.cpp \o "&", name |-> "self"]>> \o Params(m.args),
                             PyArgs(m.args), "repr", "self." \o m.name, ArgNames(m.args)) >>
     ELSE << main >>

InsertSpecial(c, m) ==
  c.cpp = "gtsam::Values" /\ m.name = "insert" /\ Len(m.args) >= 2 /\ m.args[1].t.cpp = "size_t"

ClassEvs(c, nspath, top, ser) ==
  LET mod == ModVar(nspath, top)
      inst == IF c.enums # <<>> THEN Lex.lower[c.name] ELSE ""
  IN << [ev |-> "class", cpp |-> c.cpp,
         targs |-> <<c.cpp>> \o (IF c.hasbase THEN <<c.base>> ELSE <<>>) \o <<"std::shared_ptr<" \o c.cpp \o ">">>,
         module |-> mod, name |-> c.name, instvar |-> inst] >>
     \o [i \in 1..Len(c.ctors) |-> [ev |-> "init", cls |-> c.cpp,
                                    types |-> [j \in 1..Len(c.ctors[i].args) |-> c.ctors[i].args[j].t.cpp],
                                    args |-> PyArgs(c.ctors[i].args)]]
     \o FlatSeq([i \in 1..Len(c.methods) |->
          (IF InsertSpecial(c, c.methods[i])
           THEN MethodEvs(c, c.methods[i], FALSE, ser, "_" \o c.methods[i].args[2].name) ELSE <<>>)
          \o MethodEvs(c, c.methods[i], FALSE, ser, "")])
     \o FlatSeq([i \in 1..Len(c.statics) |-> MethodEvs(c, c.statics[i], TRUE, ser, "")])
     \o [i \in 1..Len(c.dunders) |->
          SpecialEv(c.cpp, "__" \o c.dunders[i].name \o "__", <<SelfParam(c.cpp)>> \o Params(c.dunders[i].args),
                    PyArgs(c.dunders[i].args), "dunder-" \o c.dunders[i].name, "",
                    IF c.dunders[i].name = "contains" /\ Len(c.dunders[i].args) > 0
                    THEN <<c.dunders[i].args[1].name>> ELSE <<>>)]
     \o [i \in 1..Len(c.props) |-> [ev |-> "prop", cls |-> c.cpp, name |-> c.props[i].name,
                                    readonly |-> c.props[i].t.const,
                                    target |-> "&" \o c.cpp \o "::" \o c.props[i].name]]
     \o [i \in 1..Len(c.ops) |->
          LET o == c.ops[i] IN
          [ev |-> "operator", cls |-> c.cpp,
           form |-> IF o.op = "[]" THEN "getitem" ELSE IF o.op = "()" THEN "call"
                    ELSE IF Len(o.args) = 0 THEN "unary" ELSE "binary",
           op |-> IF o.op = "[]" THEN "&" \o c.cpp \o "::operator[]"
                  ELSE IF o.op = "()" THEN "&" \o c.cpp \o "::operator()" ELSE o.op]]
     \o [i \in 1..Len(c.enums) |->
          LET e == c.enums[i] ecpp == c.cpp \o "::" \o e.name IN
          [ev |-> "enum", cpp |-> ecpp, module |-> inst, name |-> e.name,
           values |-> [j \in 1..Len(e.enumerators) |-> [name |-> e.enumerators[j],
                                                        cpp |-> ecpp \o "::" \o e.enumerators[j]]]]]

RECURSIVE NsEvs(_, _, _, _, _)
\* registrations of the items of one namespace (nspath), in generator order: submodule, then items, functions last
NsEvs(items, nspath, top, ignore, ser) ==
  IF ~PartialMatch(nspath, top) THEN <<>>
  ELSE IF Len(nspath) < Len(top)
  THEN FlatSeq([i \in 1..Len(items) |->
                  IF items[i].k = "namespace"
                  THEN NsEvs(items[i].items, nspath \o <<items[i].name>>, top, ignore, ser) ELSE <<>>])
  ELSE LET mod == ModVar(nspath, top) IN
       (IF Len(nspath) > Len(top)
        THEN << [ev |-> "submodule", var |-> mod, parent |-> ModVar(SubSeq(nspath, 1, Len(nspath) - 1), top),
                 name |-> Last(nspath), doc |-> Last(nspath) \o " submodule"] >>
        ELSE <<>>)
       \o FlatSeq([i \in 1..Len(items) |->
            LET d == items[i] IN
            CASE d.k = "namespace" -> NsEvs(d.items, nspath \o <<d.name>>, top, ignore, ser)
              [] d.k = "class"     -> IF InSeq(d.cpp, ignore) THEN <<>> ELSE ClassEvs(d, nspath, top, ser)
              [] d.k = "fwdinst"   -> IF InSeq(d.cpp, ignore) THEN <<>>
                                      ELSE << [ev |-> "class", cpp |-> d.cpp,
                                               targs |-> <<d.cpp, "std::shared_ptr<" \o d.cpp \o ">">>,
                                               module |-> mod, name |-> d.name, instvar |-> ""] >>
              [] d.k = "variable"  -> << [ev |-> "attr", module |-> mod, name |-> d.name,
                                          value |-> IF d.hasdef THEN d.def ELSE NsPrefix(nspath) \o d.name] >>
              [] d.k = "enum"      -> LET ecpp == NsPrefix(nspath) \o d.name IN
                                      << [ev |-> "enum", cpp |-> ecpp, module |-> mod, name |-> d.name,
                                          values |-> [j \in 1..Len(d.enumerators) |->
                                                        [name |-> d.enumerators[j],
                                                         cpp |-> ecpp \o "::" \o d.enumerators[j]]]] >>
              [] OTHER             -> <<>>])
       \o FlatSeq([i \in 1..Len(items) |->
            LET d == items[i] IN
            IF d.k = "function"
            THEN << [ev |-> "func", module |-> mod, pyname |-> FuncPyName(d.name), params |-> Params(d.args),
                     ret |-> ~IsVoid(d.ret), callee |-> JoinStr(nspath, "::") \o "::" \o d.cpp,
                     callargs |-> ArgNames(d.args), args |-> PyArgs(d.args)] >>
            ELSE <<>>])

\* a namespace may be opened several times; its submodule is created once, by the first block
RECURSIVE DedupSubmodules(_, _)
DedupSubmodules(evs, seen) ==
  IF evs = <<>> THEN <<>>
  ELSE LET e == Head(evs) IN
       IF e.ev = "submodule" THEN (IF e.var \in seen THEN DedupSubmodules(Tail(evs), seen)
                                   ELSE <<e>> \o DedupSubmodules(Tail(evs), seen \cup {e.var}))
       ELSE <<e>> \o DedupSubmodules(Tail(evs), seen)
Expected(inst, opts) == DedupSubmodules(NsEvs(inst, <<>>, opts.top, opts.ignore, opts.ser), {})

\* BOOST_CLASS_EXPORT section (serialization on): one export per class that has a serialize / serializable member,
\* in registration order; a class whose C++ name contains a comma is exported through a typedef
\* (Lex.stripped[cpp] = cpp without the characters , : < > and blank; Lex.hascomma[cpp])
RECURSIVE SerClasses(_, _, _, _)
SerClasses(items, nspath, top, ignore) ==
  IF ~PartialMatch(nspath, top) THEN <<>>
  ELSE FlatSeq([i \in 1..Len(items) |->
         LET d == items[i] IN
         CASE d.k = "namespace" -> SerClasses(d.items, nspath \o <<d.name>>, top, ignore)
           [] d.k = "class" /\ Len(nspath) >= Len(top) /\ ~InSeq(d.cpp, ignore)
              /\ (\E j \in 1..Len(d.methods) : d.methods[j].cpp \in {"serialize", "serializable"}
                  \/ \E j2 \in 1..Len(d.statics) : d.statics[j2].cpp \in {"serialize", "serializable"}) -> <<d.cpp>>
           [] OTHER -> <<>>])
RECURSIVE Dedup(_, _)
Dedup(s, seen) == IF s = <<>> THEN <<>> ELSE IF Head(s) \in seen THEN Dedup(Tail(s), seen) ELSE <<Head(s)>> \o Dedup(Tail(s), seen \cup {Head(s)})
ExportLines(inst, opts) ==
  IF ~opts.ser THEN <<>>
  ELSE FlatSeq([i \in 1..Len(Dedup(SerClasses(inst, <<>>, opts.top, opts.ignore), {})) |->
         LET c == Dedup(SerClasses(inst, <<>>, opts.top, opts.ignore), {})[i] IN
         IF Lex.hascomma[c] THEN << "typedef " \o c \o " " \o Lex.stripped[c] \o ";", "BOOST_CLASS_EXPORT(" \o Lex.stripped[c] \o ")" >>
         ELSE << "BOOST_CLASS_EXPORT(" \o c \o ")" >>])

RECURSIVE Includes(_, _, _)
Includes(items, nspath, top) ==
  IF ~PartialMatch(nspath, top) THEN <<>>
  ELSE FlatSeq([i \in 1..Len(items) |->
         CASE items[i].k = "include" -> << "#include \"" \o items[i].header \o "\"" >>
           [] items[i].k = "namespace" -> Includes(items[i].items, nspath \o <<items[i].name>>, top)
           [] OTHER -> <<>>])

---------------------------------------------------------------------------
\* the registration machine.  state = [created : set of module variables, vars : set of C++ variables declared,
\*                                      pending : Seq(expected events), err : STRING]
InitState(inst, opts) == [created |-> {"m_"}, vars |-> {"m_"}, pending |-> Expected(inst, opts), errs |-> <<>>]

\* what of an observed event is compared (the scanner adds raw text fields that are not part of the binding)
Canon(e) ==
  CASE e.ev = "def"  -> [ev |-> "def", cls |-> e.cls, static |-> e.static, pyname |-> e.pyname, params |-> e.params,
                         ret |-> e.ret, callee |-> e.callee, callargs |-> e.callargs, args |-> e.args,
                         redirect |-> e.redirect, special |-> e.special]
    [] e.ev = "func" -> [ev |-> "func", module |-> e.module, pyname |-> e.pyname, params |-> e.params, ret |-> e.ret,
                         callee |-> e.callee, callargs |-> e.callargs, args |-> e.args]
    [] OTHER -> e

Placement(e) == CASE e.ev \in {"class", "enum", "attr", "func"} -> e.module [] OTHER -> ""

\* C03 speaks about WHICH bindings exist, under which name and where; C04 about what each binding forwards to.
\* Two events denote the same binding (identity) if they agree on the fields below; everything else is forwarding.
SameBinding(p, b) ==
  /\ p.ev = b.ev
  /\ CASE b.ev = "class"    -> p.cpp = b.cpp
       [] b.ev = "init"     -> p.cls = b.cls /\ Len(p.args) = Len(b.args)
       [] b.ev = "def"      -> p.cls = b.cls /\ p.pyname = b.pyname /\ Len(p.args) = Len(b.args)
       [] b.ev = "pickle"   -> p.cls = b.cls
       [] b.ev = "prop"     -> p.cls = b.cls /\ p.name = b.name
       [] b.ev = "operator" -> p.cls = b.cls /\ p.form = b.form
       [] b.ev = "enum"     -> p.cpp = b.cpp
       [] b.ev = "attr"     -> p.module = b.module /\ p.name = b.name
       [] b.ev = "func"     -> p.module = b.module /\ p.pyname = b.pyname /\ Len(p.args) = Len(b.args)
       [] OTHER             -> FALSE
\* the first field in which two events of the same binding differ, tagged with the property it belongs to
Names(vs) == [i \in 1..Len(vs) |-> vs[i].name]
DiffField(p, b) ==
  CASE b.ev = "class" -> IF p.module # b.module THEN "C03:class-in-wrong-module"
                         ELSE IF p.name # b.name THEN "C03:class-under-wrong-name"
                         ELSE IF p.targs # b.targs THEN "C04:class-base-or-holder"
                         ELSE "C09:class-instance-variable"
    [] b.ev = "init"  -> IF p.types # b.types THEN "C04:constructor-types" ELSE "C04:constructor-keyword-arguments"
    [] b.ev \in {"def", "func"} ->
         IF b.ev = "def" /\ p.static # b.static THEN "C04:static-vs-instance"
         ELSE IF p.params # b.params THEN "C04:lambda-parameters"
         ELSE IF p.ret # b.ret THEN "C04:return-presence"
         ELSE IF p.callee # b.callee THEN "C04:callee"
         ELSE IF p.callargs # b.callargs THEN "C04:call-arguments"
         ELSE IF p.args # b.args THEN "C04:keyword-arguments-or-defaults"
         ELSE "C04:lambda-body"
    [] b.ev = "pickle" -> "C04:pickle-text"
    [] b.ev = "prop"  -> IF p.readonly # b.readonly THEN "C04:property-writability" ELSE "C04:property-target"
    [] b.ev = "operator" -> "C03:operator"
    [] b.ev = "enum"  -> IF p.module # b.module THEN "C03:enum-in-wrong-module"
                         ELSE IF p.name # b.name THEN "C03:enum-under-wrong-name"
                         ELSE IF Names(p.values) # Names(b.values) THEN "C03:enumerators"
                         ELSE "C04:enumerator-values"
    [] b.ev = "attr"  -> "C04:variable-value"
    [] OTHER -> "C03:other"

Err(s, e) == [s EXCEPT !.errs = Append(@, e)]

Step(s, e) ==
  IF e.ev = "submodule"
  THEN IF e.var \in s.vars THEN Err(s, "C03:submodule-variable-defined-twice")
       ELSE IF e.parent \notin s.created THEN Err(s, "C03:submodule-parent-not-created")
       ELSE IF ~InSeq(e, s.pending) THEN Err([s EXCEPT !.created = @ \cup {e.var}, !.vars = @ \cup {e.var}],
                                             "C03:unexpected-submodule")
       ELSE [s EXCEPT !.created = @ \cup {e.var}, !.vars = @ \cup {e.var}, !.pending = RemoveFirst(@, e)]
  ELSE LET b == Canon(e)
           s1 == IF Placement(b) # "" /\ Placement(b) \notin s.created
                 THEN Err(s, "C03:placed-in-module-not-yet-created") ELSE s
           s2 == IF b.ev = "class" /\ b.instvar # "" /\ b.instvar \in s1.vars
                 THEN Err(s1, "C09:class-instance-variable-defined-twice") ELSE s1
           s3 == IF b.ev = "class" /\ b.instvar # ""
                 THEN [s2 EXCEPT !.created = @ \cup {b.instvar}, !.vars = @ \cup {b.instvar}] ELSE s2
       IN IF InSeq(b, s3.pending) THEN [s3 EXCEPT !.pending = RemoveFirst(@, b)]
          ELSE LET cands == SelectSeq(s3.pending, LAMBDA p : SameBinding(p, b)) IN
               IF cands = <<>> THEN Err(s3, "C03:unexpected-binding:" \o b.ev)
               ELSE [Err(s3, DiffField(cands[1], b)) EXCEPT !.pending = RemoveFirst(@, cands[1])]

RECURSIVE Run(_, _)
Run(s, evs) == IF evs = <<>> THEN s ELSE Run(Step(s, Head(evs)), Tail(evs))

\* all clauses violated by a trace (empty = accepted)
Verdict(inst, opts, evs) ==
  LET s == Run(InitState(inst, opts), evs) IN
  s.errs \o [i \in 1..Len(s.pending) |-> "C03:missing-binding:" \o s.pending[i].ev]
=============================================================================
