----------------------------- MODULE ParseCost -----------------------------
(***************************************************************************)
(* C19: the parser as a step-counting machine.  One step = one evaluation  *)
(* (rule, position, mode) of a grammar rule.  The grammar is the recursive *)
(* core of the dialect,                                                    *)
(*      N ::= "open" (N | leaf)* "close"        (namespaces / template      *)
(*                                               argument lists)           *)
(* parsed the way pyparsing parses an Or ('^'): every alternative is first *)
(* tried without parse actions to find the longest match, then the winner  *)
(* is parsed again with actions.  Without memoisation the second parse     *)
(* repeats the whole sub-parse, so the work doubles with each nesting      *)
(* level; with the packrat memo table every (rule, position, mode) is      *)
(* evaluated once and later requests are table hits.                       *)
(*   Work(d, memo)    number of evaluations for nesting depth d            *)
(* TLC evaluates both variants for d = 1..MaxD and checks the envelopes    *)
(* used to judge the measured counts of the implementation:                *)
(*   memoised:    Work(2d) <= 8 * Work(d)        (cubic envelope, in fact  *)
(*                                                linear)                  *)
(*   plain:       Work(d+1) >= 2 * Work(d)       (exponential)             *)
(***************************************************************************)
EXTENDS Naturals, Sequences, TLC
CONSTANTS MaxD, Alts      \* Alts = number of alternatives of the Or that begin by trying the nested rule

RECURSIVE Plain(_, _)
\* evaluations to parse a nest of depth d in mode m ("try" / "act") without a memo table
Plain(d, m) ==
  IF d = 0 THEN 1
  ELSE LET try == 1 + Alts * Plain(d - 1, "try")          \* every alternative tries the inner nest
       IN IF m = "try" THEN try ELSE try + Plain(d - 1, "act")   \* then the winner is parsed again, with actions
\* with the memo table each (depth, mode) pair is evaluated once; every other request is one table look-up
Memo(d) == 2 * (d + 1) + Alts * 2 * d

Work(d, memo) == IF memo THEN Memo(d) ELSE Plain(d, "act")

EnvelopeMemo == \A d \in 1..(MaxD \div 2) : Work(2 * d, TRUE) <= 8 * Work(d, TRUE)
BlowUpPlain == \A d \in 1..(MaxD - 1) : Work(d + 1, FALSE) >= 2 * Work(d, FALSE)
\* per-key re-evaluations: bounded by a constant with the table, 2^d without
RECURSIVE Pow2(_)
Pow2(n) == IF n = 0 THEN 1 ELSE 2 * Pow2(n - 1)
ReevalPlain(d) == Pow2(d)
ASSUME EnvelopeMemo /\ BlowUpPlain

\* ---- trace acceptance: a trace is a sequence of measured work values w[d] (d = 1..n) for one input family
PolyEnvelope(w) == \A d \in 1..(Len(w) \div 2) : w[2 * d] <= 8 * w[d]
NoDoubling(w) == ~ \A d \in 1..(Len(w) - 1) : w[d + 1] >= 2 * w[d]
=============================================================================
