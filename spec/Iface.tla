------------------------------- MODULE Iface -------------------------------
(***************************************************************************)
(* The interface-file dialect of borglab/wrap (DOCS.md) as data.           *)
(*                                                                         *)
(* Two layers:                                                             *)
(*   - concrete syntax nodes (CST): what a derivation of the dialect       *)
(*     writes down, in source order, including the three spellings the     *)
(*     parse result does not record (`class`/`struct` after `enum`,        *)
(*     `std ::` before a pair return, cross-kind order of class members);  *)
(*   - the abstract interface tree (AIT): what `Module.parseString` must   *)
(*     return, as nested records.  Abs(cst) is the AIT of a CST.           *)
(* Render(cst) is the sequence of C++-lexical tokens of a CST.  Explains   *)
(* (ait, toks) is the converse relation used on trees that come from the   *)
(* implementation (every token of the input is accounted for).             *)
(*                                                                         *)
(* All records of one kind always carry all their fields (JSON friendly).  *)
(***************************************************************************)
EXTENDS Naturals, Sequences, FiniteSets, TLC

---------------------------------------------------------------------------
\* generic sequence helpers
RECURSIVE FlatSeq(_)
FlatSeq(ss) == IF ss = <<>> THEN <<>> ELSE Head(ss) \o FlatSeq(Tail(ss))

RECURSIVE JoinSeq(_, _)
JoinSeq(ss, sep) ==
  IF Len(ss) = 0 THEN <<>>
  ELSE IF Len(ss) = 1 THEN ss[1]
  ELSE ss[1] \o sep \o JoinSeq(Tail(ss), sep)

MapSeq(s, Op(_)) == [i \in 1..Len(s) |-> Op(s[i])]

SelectKind(s, kind) == SelectSeq(s, LAMBDA m : m.k = kind)

IsPrefixAt(r, toks, pos) ==
  /\ pos + Len(r) - 1 <= Len(toks)
  /\ \A i \in 1..Len(r) : toks[pos + i - 1] = r[i]

---------------------------------------------------------------------------
\* Types.  A type expression is
\*   [qn : Seq(STRING) (namespaces ++ <<name>>), args : Seq(Type), const : BOOLEAN,
\*    q  : {"", "*", "@", "&"}, basic : BOOLEAN]
\* A *typename* (template instantiation lists, typedef targets, base classes) is the same
\* record with const = FALSE, q = "", basic = FALSE.
NoType == [qn |-> <<>>, args |-> <<>>, const |-> FALSE, q |-> "", basic |-> FALSE]
BasicNames == {"void", "bool", "unsigned char", "char", "int", "size_t", "double", "float"}
Quals == {"", "*", "@", "&"}

Ty(qn, args, c, q, b) == [qn |-> qn, args |-> args, const |-> c, q |-> q, basic |-> b]
TN(qn, args) == Ty(qn, args, FALSE, "", FALSE)

RECURSIVE StripQ(_)
\* the typename view of a type: qualifiers dropped at every level
StripQ(t) == TN(t.qn, [i \in 1..Len(t.args) |-> StripQ(t.args[i])])

RenderQn(qn) ==
  IF qn = <<"unsigned char">> THEN <<"unsigned", "char">>
  ELSE JoinSeq([i \in 1..Len(qn) |-> <<qn[i]>>], <<"::">>)

RECURSIVE RenderType(_)
RenderType(t) ==
     (IF t.const THEN <<"const">> ELSE <<>>)
  \o RenderQn(t.qn)
  \o (IF Len(t.args) > 0
      THEN <<"<">> \o JoinSeq([i \in 1..Len(t.args) |-> RenderType(t.args[i])], <<",">>) \o <<">">>
      ELSE <<>>)
  \o (IF t.q = "" THEN <<>> ELSE <<t.q>>)

\* the C++ spelling of a type expression as the generators must write it (DOCS.md: `T*` is a shared pointer, `T@` a raw
\* pointer, `T&` a reference, const goes in front; the markers of template arguments are spelled at every depth)
RECURSIVE SpellJoin(_, _)
SpellJoin(ss, sep) == IF Len(ss) = 0 THEN "" ELSE IF Len(ss) = 1 THEN ss[1] ELSE ss[1] \o sep \o SpellJoin(Tail(ss), sep)
RECURSIVE CppSpelling(_)
CppSpelling(t) ==
  LET core == SpellJoin(t.qn, "::")
              \o (IF Len(t.args) > 0 THEN "<" \o SpellJoin([i \in 1..Len(t.args) |-> CppSpelling(t.args[i])], ", ") \o ">" ELSE "")
      marked == CASE t.q = "*" -> "std::shared_ptr<" \o core \o ">"
                  [] t.q = "@" -> core \o "*"
                  [] t.q = "&" -> core \o "&"
                  [] OTHER -> core
  IN (IF t.const THEN "const " ELSE "") \o marked

RECURSIVE TypeDepth(_)
TypeDepth(t) == IF Len(t.args) = 0 THEN 0
                ELSE 1 + (CHOOSE m \in 0..20 :
                            /\ \E i \in 1..Len(t.args) : TypeDepth(t.args[i]) = m
                            /\ \A i \in 1..Len(t.args) : TypeDepth(t.args[i]) <= m)

RECURSIVE WellFormedType(_)
\* what the dialect allows for a type expression
WellFormedType(t) ==
  /\ Len(t.qn) >= 1
  /\ t.q \in Quals
  /\ t.basic => (Len(t.qn) = 1 /\ t.qn[1] \in BasicNames /\ Len(t.args) = 0)
  /\ (~t.basic /\ Len(t.qn) = 1) => t.qn[1] \notin BasicNames
  /\ \A i \in 1..Len(t.args) : WellFormedType(t.args[i])

---------------------------------------------------------------------------
\* Signatures
Arg(t, name, hasdef, def) == [t |-> t, name |-> name, hasdef |-> hasdef, def |-> def]
\* CST return: std records whether `std ::` was written (only meaningful when pair)
Ret(pair, t1, t2, std) == [pair |-> pair, t1 |-> t1, t2 |-> t2, std |-> std]
Ret1(t) == Ret(FALSE, t, NoType, FALSE)
\* template list: Seq([name, insts : Seq(typename)]); <<>> = not templated
TP(name, insts) == [name |-> name, insts |-> insts]

RenderArg(a) == RenderType(a.t) \o <<a.name>> \o (IF a.hasdef THEN <<"=", a.def>> ELSE <<>>)
RenderArgs(args) == JoinSeq([i \in 1..Len(args) |-> RenderArg(args[i])], <<",">>)
RenderRet(r) ==
  IF r.pair
  THEN (IF r.std THEN <<"std", "::">> ELSE <<>>) \o <<"pair", "<">> \o RenderType(r.t1)
       \o <<",">> \o RenderType(r.t2) \o <<">">>
  ELSE RenderType(r.t1)
RenderTP(p) ==
  <<p.name>> \o (IF Len(p.insts) = 0 THEN <<>>
                 ELSE <<"=", "{">> \o JoinSeq([i \in 1..Len(p.insts) |-> RenderType(p.insts[i])], <<",">>)
                      \o <<"}">>)
RenderTmpl(tm) ==
  IF Len(tm) = 0 THEN <<>>
  ELSE <<"template", "<">> \o JoinSeq([i \in 1..Len(tm) |-> RenderTP(tm[i])], <<",">>) \o <<">">>

---------------------------------------------------------------------------
\* Class members (CST = AIT except for `enum.flavour` and `ret.std`)
Ctor(name, tmpl, args)              == [k |-> "ctor", name |-> name, tmpl |-> tmpl, args |-> args]
Method(name, tmpl, ret, args, c)    == [k |-> "method", name |-> name, tmpl |-> tmpl, ret |-> ret,
                                        args |-> args, const |-> c]
Static(name, tmpl, ret, args)       == [k |-> "static", name |-> name, tmpl |-> tmpl, ret |-> ret, args |-> args]
Prop(t, name, hasdef, def)          == [k |-> "prop", t |-> t, name |-> name, hasdef |-> hasdef, def |-> def]
Oper(op, ret, args)                 == [k |-> "operator", op |-> op, ret |-> ret, args |-> args, const |-> TRUE]
Dunder(name, args)                  == [k |-> "dunder", name |-> name, args |-> args]
EnumN(name, flavour, enumerators)   == [k |-> "enum", name |-> name, flavour |-> flavour, enumerators |-> enumerators]

MemberKinds == <<"ctor", "method", "static", "prop", "operator", "dunder", "enum">>
OperatorSyms == {"+", "-", "*", "/", "%", "^", "&", "|", "+=", "-=", "*=", "/=", "%=", "^=", "&=", "|=",
                 "<<", "<<=", ">>", ">>=", "==", "!=", "<", ">", "<=", ">=", "()", "[]"}

RenderEnum(e) ==
  <<"enum">> \o (IF e.flavour = "" THEN <<>> ELSE <<e.flavour>>) \o <<e.name, "{">>
  \o JoinSeq([i \in 1..Len(e.enumerators) |-> <<e.enumerators[i]>>], <<",">>) \o <<"}", ";">>

RenderMember(m) ==
  CASE m.k = "ctor"     -> RenderTmpl(m.tmpl) \o <<m.name, "(">> \o RenderArgs(m.args) \o <<")", ";">>
    [] m.k = "method"   -> RenderTmpl(m.tmpl) \o RenderRet(m.ret) \o <<m.name, "(">> \o RenderArgs(m.args)
                           \o <<")">> \o (IF m.const THEN <<"const">> ELSE <<>>) \o <<";">>
    [] m.k = "static"   -> RenderTmpl(m.tmpl) \o <<"static">> \o RenderRet(m.ret) \o <<m.name, "(">>
                           \o RenderArgs(m.args) \o <<")", ";">>
    [] m.k = "prop"     -> RenderType(m.t) \o <<m.name>> \o (IF m.hasdef THEN <<"=", m.def>> ELSE <<>>) \o <<";">>
    [] m.k = "operator" -> RenderRet(m.ret) \o <<"operator", m.op, "(">> \o RenderArgs(m.args)
                           \o <<")", "const", ";">>
    [] m.k = "dunder"   -> <<"__" \o m.name \o "__", "(">> \o RenderArgs(m.args) \o <<")", ";">>
    [] m.k = "enum"     -> RenderEnum(m)

---------------------------------------------------------------------------
\* Declarations
Include(h)                          == [k |-> "include", header |-> h]
Fwd(qn, virtual, hasparent, parent) == [k |-> "fwd", qn |-> qn, virtual |-> virtual, hasparent |-> hasparent,
                                        parent |-> parent]
Typedef(t, newname)                 == [k |-> "typedef", t |-> t, newname |-> newname]
Func(name, tmpl, ret, args)         == [k |-> "function", name |-> name, tmpl |-> tmpl, ret |-> ret, args |-> args]
Var(t, name, hasdef, def)           == [k |-> "variable", t |-> t, name |-> name, hasdef |-> hasdef, def |-> def]
\* class header (CST): members are kept in source order
ClassN(name, tmpl, virtual, hasbase, base, members) ==
  [k |-> "class", name |-> name, tmpl |-> tmpl, virtual |-> virtual, hasbase |-> hasbase, base |-> base,
   members |-> members]
NsN(name, items) == [k |-> "namespace", name |-> name, items |-> items]

RenderClassOpen(c) ==
  RenderTmpl(c.tmpl) \o (IF c.virtual THEN <<"virtual">> ELSE <<>>) \o <<"class", c.name>>
  \o (IF c.hasbase THEN <<":">> \o RenderType(c.base) ELSE <<>>) \o <<"{">>
RenderClassClose == <<"}", ";">>
RenderMembers(ms) == FlatSeq([i \in 1..Len(ms) |-> RenderMember(ms[i])])

RenderLeaf(d) ==
  CASE d.k = "include"  -> <<"#include <" \o d.header \o ">">>     \* one token: the header is copied verbatim
    [] d.k = "fwd"      -> (IF d.virtual THEN <<"virtual">> ELSE <<>>) \o <<"class">> \o RenderQn(d.qn)
                           \o (IF d.hasparent THEN <<":">> \o RenderQn(d.parent) ELSE <<>>) \o <<";">>
    [] d.k = "typedef"  -> <<"typedef">> \o RenderType(d.t) \o <<d.newname, ";">>
    [] d.k = "function" -> RenderTmpl(d.tmpl) \o RenderRet(d.ret) \o <<d.name, "(">> \o RenderArgs(d.args)
                           \o <<")", ";">>
    [] d.k = "variable" -> RenderType(d.t) \o <<d.name>> \o (IF d.hasdef THEN <<"=", d.def>> ELSE <<>>) \o <<";">>
    [] d.k = "enum"     -> RenderEnum(d)
    [] d.k = "class"    -> RenderClassOpen(d) \o RenderMembers(d.members) \o RenderClassClose

RECURSIVE RenderItems(_)
RenderDecl(d) ==
  IF d.k = "namespace" THEN <<"namespace", d.name, "{">> \o RenderItems(d.items) \o <<"}">>
  ELSE RenderLeaf(d)
RenderItems(items) == FlatSeq([i \in 1..Len(items) |-> RenderDecl(items[i])])

---------------------------------------------------------------------------
\* Abstraction CST -> AIT: erase what the parse result does not record.
AbsRet(r) == [pair |-> r.pair, t1 |-> r.t1, t2 |-> r.t2]
AbsEnum(e) == [k |-> "enum", name |-> e.name, enumerators |-> e.enumerators]
AbsMember(m) ==
  CASE m.k = "method"   -> [m EXCEPT !.ret = AbsRet(m.ret)]
    [] m.k = "static"   -> [m EXCEPT !.ret = AbsRet(m.ret)]
    [] m.k = "operator" -> [m EXCEPT !.ret = AbsRet(m.ret)]
    [] m.k = "enum"     -> AbsEnum(m)
    [] OTHER            -> m
AbsClass(c) ==
  LET ms == [i \in 1..Len(c.members) |-> AbsMember(c.members[i])]
  IN [k |-> "class", name |-> c.name, tmpl |-> c.tmpl, virtual |-> c.virtual, hasbase |-> c.hasbase,
      base |-> c.base,
      ctors   |-> SelectKind(ms, "ctor"),     methods |-> SelectKind(ms, "method"),
      statics |-> SelectKind(ms, "static"),   props   |-> SelectKind(ms, "prop"),
      ops     |-> SelectKind(ms, "operator"), dunders |-> SelectKind(ms, "dunder"),
      enums   |-> SelectKind(ms, "enum")]

RECURSIVE AbsItems(_)
AbsDecl(d) ==
  CASE d.k = "namespace" -> [k |-> "namespace", name |-> d.name, items |-> AbsItems(d.items)]
    [] d.k = "class"     -> AbsClass(d)
    [] d.k = "function"  -> [d EXCEPT !.ret = AbsRet(d.ret)]
    [] d.k = "enum"      -> AbsEnum(d)
    [] OTHER             -> d
AbsItems(items) == [i \in 1..Len(items) |-> AbsDecl(items[i])]

---------------------------------------------------------------------------
\* Explains(aitItems, toks): every token of `toks` is accounted for by the AIT, i.e. `toks` is a rendering
\* of some CST whose abstraction is the AIT.  The three unrecorded spellings are resolved by look-ahead.
\* Matchers return the position after the construct, or 0 if the tokens there are not that construct.
MRetAIT(r, toks, pos) ==
  \* a pair may or may not be preceded by `std ::`
  LET r0 == RenderRet([r EXCEPT !.std = FALSE])
      r1 == RenderRet([r EXCEPT !.std = TRUE])
  IN IF IsPrefixAt(r0, toks, pos) THEN pos + Len(r0)
     ELSE IF r.pair /\ IsPrefixAt(r1, toks, pos) THEN pos + Len(r1)
     ELSE 0

WithStd(r, s) == [pair |-> r.pair, t1 |-> r.t1, t2 |-> r.t2, std |-> s]

MEnum(e, toks, pos) ==
  LET f(fl) == RenderEnum([k |-> "enum", name |-> e.name, flavour |-> fl, enumerators |-> e.enumerators])
  IN IF IsPrefixAt(f(""), toks, pos) THEN pos + Len(f(""))
     ELSE IF IsPrefixAt(f("class"), toks, pos) THEN pos + Len(f("class"))
     ELSE IF IsPrefixAt(f("struct"), toks, pos) THEN pos + Len(f("struct"))
     ELSE 0

\* a member / declaration with a return type: try both spellings of the pair
MWithRet(m, toks, pos, R(_)) ==
  LET a == R([m EXCEPT !.ret = WithStd(m.ret, FALSE)])
      b == R([m EXCEPT !.ret = WithStd(m.ret, TRUE)])
  IN IF IsPrefixAt(a, toks, pos) THEN pos + Len(a)
     ELSE IF m.ret.pair /\ IsPrefixAt(b, toks, pos) THEN pos + Len(b)
     ELSE 0

MMember(m, toks, pos) ==
  IF m.k = "enum" THEN MEnum(m, toks, pos)
  ELSE IF m.k \in {"method", "static", "operator"} THEN MWithRet(m, toks, pos, RenderMember)
  ELSE IF IsPrefixAt(RenderMember(m), toks, pos) THEN pos + Len(RenderMember(m)) ELSE 0

\* class body: at each position place the next member of whichever kind list matches there
RECURSIVE MBody(_, _, _)
MBody(lists, toks, pos) ==
  \* lists : [kind -> Seq(member)] remaining
  IF \A kd \in DOMAIN lists : lists[kd] = <<>> THEN pos
  ELSE LET cands == {kd \in DOMAIN lists : lists[kd] # <<>> /\ MMember(Head(lists[kd]), toks, pos) # 0}
       IN IF cands = {} THEN 0
          ELSE LET kd == CHOOSE x \in cands : TRUE
               IN MBody([lists EXCEPT ![kd] = Tail(@)], toks, MMember(Head(lists[kd]), toks, pos))

ClassLists(c) == [kd \in {"ctor", "method", "static", "prop", "operator", "dunder", "enum"} |->
                    CASE kd = "ctor" -> c.ctors [] kd = "method" -> c.methods [] kd = "static" -> c.statics
                      [] kd = "prop" -> c.props [] kd = "operator" -> c.ops [] kd = "dunder" -> c.dunders
                      [] kd = "enum" -> c.enums]

MClass(c, toks, pos) ==
  LET open == RenderClassOpen([name |-> c.name, tmpl |-> c.tmpl, virtual |-> c.virtual, hasbase |-> c.hasbase,
                               base |-> c.base])
  IN IF ~IsPrefixAt(open, toks, pos) THEN 0
     ELSE LET p2 == MBody(ClassLists(c), toks, pos + Len(open))
          IN IF p2 = 0 THEN 0
             ELSE IF IsPrefixAt(RenderClassClose, toks, p2) THEN p2 + 2 ELSE 0

RECURSIVE MItems(_, _, _)
MDecl(d, toks, pos) ==
  CASE d.k = "namespace" ->
         IF ~IsPrefixAt(<<"namespace", d.name, "{">>, toks, pos) THEN 0
         ELSE LET p2 == MItems(d.items, toks, pos + 3)
              IN IF p2 = 0 THEN 0 ELSE IF IsPrefixAt(<<"}">>, toks, p2) THEN p2 + 1 ELSE 0
    [] d.k = "class"    -> MClass(d, toks, pos)
    [] d.k = "enum"     -> MEnum(d, toks, pos)
    [] d.k = "function" -> MWithRet(d, toks, pos, RenderLeaf)
    [] OTHER            -> IF IsPrefixAt(RenderLeaf(d), toks, pos) THEN pos + Len(RenderLeaf(d)) ELSE 0
MItems(items, toks, pos) ==
  IF pos = 0 THEN 0
  ELSE IF items = <<>> THEN pos
  ELSE MItems(Tail(items), toks, MDecl(Head(items), toks, pos))

Explains(aitItems, toks) == MItems(aitItems, toks, 1) = Len(toks) + 1

\* bracket balance of a token sequence (used on accepted corrupted inputs and on generator output)
RECURSIVE BalFrom(_, _, _)
BalFrom(toks, i, stack) ==
  IF i > Len(toks) THEN stack = <<>>
  ELSE LET t == toks[i] IN
       IF t \in {"(", "{"} THEN BalFrom(toks, i + 1, <<t>> \o stack)
       ELSE IF t = ")" THEN stack # <<>> /\ Head(stack) = "(" /\ BalFrom(toks, i + 1, Tail(stack))
       ELSE IF t = "}" THEN stack # <<>> /\ Head(stack) = "{" /\ BalFrom(toks, i + 1, Tail(stack))
       ELSE BalFrom(toks, i + 1, stack)
Balanced(toks) == BalFrom(toks, 1, <<>>)
=============================================================================
