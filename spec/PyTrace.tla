------------------------------ MODULE PyTrace ------------------------------
(* Trace validation of generated pybind11 translation units: one observation = [id, inst, opts, events, lex];    *)
(* the registration machine of PyBind.tla consumes the scanned events; the verdict names the failing clause.     *)
EXTENDS Json, IOUtils, TLCExt, Iface
Batch == JsonDeserialize(IOEnv.TRACE_FILE)
VARIABLE pos
P(ob) == INSTANCE PyBind WITH Lex <- ob.lex
Init == pos = 1
Clauses(ob) ==
  P(ob)!Verdict(ob.inst, ob.opts, ob.events)
  \o (IF ob.includes # P(ob)!Includes(ob.inst, <<>>, ob.opts.top)
                        \o (IF ob.opts.ser THEN <<"#include <boost/serialization/export.hpp>">> ELSE <<>>)
      THEN <<"C16:includes-differ">> ELSE <<>>)
  \o (IF \E i \in 1..Len(ob.spell) : CppSpelling(ob.spell[i].st) # ob.spell[i].cpp THEN <<"C04:type-spelling-loses-declared-markers">> ELSE <<>>)
  \o (IF ob.export # P(ob)!ExportLines(ob.inst, ob.opts) THEN <<"C03:serialization-exports-differ">> ELSE <<>>)
Next ==
  /\ pos <= Len(Batch)
  /\ PrintT(<<"VERDICT", Batch[pos].id, ToJson(Clauses(Batch[pos]))>>)
  /\ pos' = pos + 1
Spec == Init /\ [][Next]_pos
Accepted == TLCGet("stats").diameter - 1 = Len(Batch)
=============================================================================
