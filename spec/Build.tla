------------------------------- MODULE Build -------------------------------
(***************************************************************************)
(* C14 (schedules) / C07 (no output on failure): wrapper processes in one  *)
(* build directory.  Each process is a recorded sequence of file-system    *)
(* steps (from strace of the real scripts):                                *)
(*     [op |-> "mkdir", path]          EEXIST is tolerated (exist_ok)      *)
(*     [op |-> "open",  path]          O_WRONLY|O_CREAT|O_TRUNC            *)
(*     [op |-> "write", path, data]    data = identifier of the bytes      *)
(*     [op |-> "close", path]                                              *)
(* TLC explores every interleaving.  Invariants: a process touches only    *)
(* its declared outputs and their directories; at quiescence every file    *)
(* holds exactly what its (single) owner wrote, i.e. the result equals the *)
(* union of the solo results - for every schedule.                         *)
(***************************************************************************)
EXTENDS Naturals, Sequences, FiniteSets, TLC
CONSTANTS Progs,        \* sequence of programs, each a sequence of steps
          Declared      \* sequence: the set of paths process i may create (files and directories)
VARIABLES pc, dirs, files, open
vars == <<pc, dirs, files, open>>
Procs == 1..Len(Progs)
Init == /\ pc = [p \in Procs |-> 1]
        /\ dirs = {}
        /\ files = <<>>                 \* path -> sequence of data identifiers (function with DOMAIN = existing files)
        /\ open = {}
Step(p) ==
  /\ pc[p] <= Len(Progs[p])
  /\ LET s == Progs[p][pc[p]] IN
     /\ CASE s.op = "mkdir" -> /\ dirs' = dirs \cup {s.path}
                               /\ UNCHANGED <<files, open>>
          [] s.op = "open"  -> /\ files' = [q \in DOMAIN files \cup {s.path} |-> IF q = s.path THEN <<>> ELSE files[q]]
                               /\ open' = open \cup {<<p, s.path>>}
                               /\ UNCHANGED dirs
          [] s.op = "write" -> /\ files' = [files EXCEPT ![s.path] = Append(@, s.data)]
                               /\ UNCHANGED <<dirs, open>>
          [] s.op = "close" -> /\ open' = open \ {<<p, s.path>>}
                               /\ UNCHANGED <<dirs, files>>
     /\ pc' = [pc EXCEPT ![p] = @ + 1]
Next == \E p \in Procs : Step(p)
Spec == Init /\ [][Next]_vars
Done == \A p \in Procs : pc[p] > Len(Progs[p])
\* what process p writes into path when it runs alone
RECURSIVE SoloFrom(_, _, _)
SoloFrom(prog, path, i) ==
  IF i > Len(prog) THEN <<>>
  ELSE IF prog[i].op = "write" /\ prog[i].path = path THEN <<prog[i].data>> \o SoloFrom(prog, path, i + 1)
  ELSE SoloFrom(prog, path, i + 1)
Writes(p) == {Progs[p][i].path : i \in {j \in 1..Len(Progs[p]) : Progs[p][j].op \in {"open", "write"}}}
\* every step stays inside the process's declared outputs
OnlyDeclared == \A p \in Procs : \A i \in 1..Len(Progs[p]) : Progs[p][i].path \in Declared[p]
\* disjoint targets (the property quantifies over runs writing other targets)
Disjoint == \A p, q \in Procs : p # q => Writes(p) \cap Writes(q) = {}
\* schedule independence
SameAsSolo == (Done /\ Disjoint) => \A p \in Procs : \A path \in Writes(p) : files[path] = SoloFrom(Progs[p], path, 1)
\* a file is opened only after its directory exists (never relies on another process's mkdir)
RECURSIVE MkdirBefore(_, _, _)
MkdirBefore(prog, dir, i) == \E j \in 1..(i - 1) : prog[j].op = "mkdir" /\ prog[j].path = dir
=============================================================================
