------------------------------ MODULE DocTrace ------------------------------
(* For every observation [id, xml, cls, runs] the expected docstring of every method binding, per wrap_file run:   *)
(* the selected member's text (Docs), the characters that must stand between the quotes (Embed), what a C++17      *)
(* compiler decodes them to (Decode) and whether the text belongs to the analysed deviations (KnownBad).           *)
EXTENDS DocString, Json, IOUtils, TLCExt
Batch == JsonDeserialize(IOEnv.TRACE_FILE)
VARIABLE pos
Init == pos = 1
Exp(ob) ==
  [r \in 1..Len(ob.runs) |->
     LET docs == Docs(ob.xml, ob.cls, ob.runs[r]) IN
     [i \in 1..Len(docs) |-> [text |-> docs[i], literal |-> Embed(docs[i]), decoded |-> Decode(Embed(docs[i])),
                              knownbad |-> KnownBad(docs[i])]]]
Next ==
  /\ pos <= Len(Batch)
  /\ PrintT(<<"DOCS", Batch[pos].id, ToJson(Exp(Batch[pos]))>>)
  /\ pos' = pos + 1
Spec == Init /\ [][Next]_pos
Accepted == TLCGet("stats").diameter - 1 = Len(Batch)
=============================================================================
