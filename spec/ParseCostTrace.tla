--------------------------- MODULE ParseCostTrace ---------------------------
EXTENDS ParseCost, Json, IOUtils, TLCExt
Batch == JsonDeserialize(IOEnv.TRACE_FILE)
VARIABLE pos
Init == pos = 1
Clause(ob) ==
  IF ~PolyEnvelope(ob.work) THEN "work-exceeds-polynomial-envelope"
  ELSE IF Len(ob.work) >= 6 /\ ~NoDoubling(ob.work) THEN "work-doubles-with-every-level"
  ELSE IF \E d \in 1..Len(ob.maxreeval) : ob.maxreeval[d] > ob.reevalA + ob.reevalB * d THEN "rule-reevaluated-too-often"
  ELSE ""
Next ==
  /\ pos <= Len(Batch)
  /\ PrintT(<<"VERDICT", Batch[pos].id, Clause(Batch[pos])>>)
  /\ pos' = pos + 1
Spec == Init /\ [][Next]_pos
Accepted == TLCGet("stats").diameter - 1 = Len(Batch)
=============================================================================
