------------------------------ MODULE Families ------------------------------
(* Scaled input families for C19 (and C07 termination): nesting depth d of namespaces, of template arguments, of     *)
(* both, and files of n declarations.  Rendered from concrete syntax trees of Iface, so they are in the dialect.      *)
EXTENDS Iface, Json, IOUtils, TLCExt
IntT == Ty(<<"int">>, <<>>, FALSE, "", TRUE)
VoidT == Ty(<<"void">>, <<>>, FALSE, "", TRUE)
RECURSIVE DeepType(_)
DeepType(d) == IF d = 0 THEN IntT ELSE Ty(<<"std", "vector">>, <<DeepType(d - 1)>>, d % 2 = 0, IF d % 3 = 0 THEN "&" ELSE "", FALSE)
RECURSIVE DeepNs(_, _)
DeepNs(d, inner) == IF d = 0 THEN inner ELSE << NsN("n" \o ToString(d), DeepNs(d - 1, inner)) >>
ClassA(t) == ClassN("A", <<>>, FALSE, FALSE, NoType,
                    <<Ctor("A", <<>>, <<Arg(t, "x", FALSE, "")>>), Method("get", <<>>, Ret1(t), <<>>, TRUE)>>)
Decls(n) == [i \in 1..n |-> IF i % 2 = 0 THEN Func("f" \o ToString(i), <<>>, Ret1(IntT), <<Arg(IntT, "x", TRUE, "0")>>)
                            ELSE ClassN("C" \o ToString(i), <<>>, FALSE, FALSE, NoType,
                                        <<Method("m", <<>>, Ret1(VoidT), <<Arg(IntT, "a", FALSE, "")>>, FALSE)>>)]
\* every level holds declarations before AND after the nested namespace (a realistic project file): what was parsed
\* inside must not be parsed again when the enclosing rule is retried
RECURSIVE PopNs(_)
PopNs(d) ==
  LET k == ToString(d)
      small(n) == ClassN(n \o k, <<>>, FALSE, FALSE, NoType, <<Method("m", <<>>, Ret1(VoidT), <<Arg(IntT, "a", FALSE, "")>>, FALSE)>>)
  IN << small("P"), Func("f" \o k, <<>>, Ret1(IntT), <<Arg(IntT, "x", TRUE, "0")>>) >>
     \o (IF d = 0 THEN <<>> ELSE << NsN("n" \o k, PopNs(d - 1)) >>)
     \o << Func("g" \o k, <<>>, Ret1(VoidT), <<>>), small("Q"), Func("h" \o k, <<>>, Ret1(IntT), <<Arg(IntT, "y", FALSE, "")>>), small("R") >>
Family(name, d) ==
  CASE name = "namespace-depth" -> DeepNs(d, <<ClassA(IntT)>>)
    [] name = "template-depth"  -> <<Func("f", <<>>, Ret1(DeepType(d)), <<Arg(DeepType(d), "x", FALSE, "")>>)>>
    [] name = "both"            -> DeepNs(d, <<ClassA(DeepType(d))>>)
    [] name = "file-size"       -> Decls(5 * d)
    [] name = "namespace-populated" -> PopNs(d)
Req == JsonDeserialize(IOEnv.TRACE_FILE)
VARIABLE pos
Init == pos = 1
Next == /\ pos <= Len(Req)
        /\ PrintT(<<"FAMILY", Req[pos].name, Req[pos].d, ToJson(RenderItems(Family(Req[pos].name, Req[pos].d)))>>)
        /\ pos' = pos + 1
Spec == Init /\ [][Next]_pos
=============================================================================
