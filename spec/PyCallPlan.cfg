SPECIFICATION Spec
POSTCONDITION Accepted
CHECK_DEADLOCK FALSE
