SPECIFICATION HSpec
CONSTANTS
  MaxDim = 3
  Objects = {"o1", "o2"}
  MaxSteps = 5
INVARIANT KeptAlive
INVARIANT EmitLog
CHECK_DEADLOCK FALSE
