------------------------------- MODULE MexIds -------------------------------
(***************************************************************************)
(* C05, design level: the gateway-id protocol of the MATLAB generator as   *)
(* the code performs it.                                                   *)
(*   pass 1 (while the .m text is written): ids are allocated per class in *)
(*     the order  [virtual: an UNNAMED slot] collector ctor* dtor method*  *)
(*     (get set)* static* [deserialize], then free functions.  For a       *)
(*     virtual class the up-cast call site uses (unnamed slot + 1) and the *)
(*     collector entry is stored one slot later but named and called with  *)
(*     the unnamed slot's number  (_update_wrapper_id() + 1 / id_diff=-1). *)
(*   pass 2 (mex_function / generate_wrapper): ids 0..n-1 are walked; an   *)
(*     unnamed slot takes the routine of the following entry and queues    *)
(*     the up-cast routine for the next id.                                *)
(* The property is order-free (Consistent); TLC checks that the protocol   *)
(* satisfies it for every sequence of class shapes within the bounds.      *)
(***************************************************************************)
EXTENDS Naturals, Sequences, FiniteSets, TLC
CONSTANTS MaxClasses, MaxCtors, MaxMethods, MaxProps, MaxStatics, MaxFuncs

Shapes == [virtual : BOOLEAN, ctors : 0..MaxCtors, methods : 0..MaxMethods, props : 0..MaxProps, roprops : 0..1,
           statics : 0..MaxStatics, deser : BOOLEAN, funcs : 0..MaxFuncs]   \* funcs: free functions allocated after the class
\* (props: read-write properties, a getter and a setter id each; roprops: const properties, a getter id only)

VARIABLES todo, nextId, map, sites, phase, w, nextCase, cases, routines
vars == <<todo, nextId, map, sites, phase, w, nextCase, cases, routines>>

None == [name |-> "none"]
Entry(cls, role, k, suffix) == [name |-> <<cls, role, k, suffix>>, cls |-> cls, role |-> role, k |-> k]
Site(id, cls, role, k) == [id |-> id, cls |-> cls, role |-> role, k |-> k]

Init ==
  /\ todo = 0                                            \* number of classes allocated so far
  /\ nextId = 0 /\ map = <<>> /\ sites = {} /\ phase = "alloc"
  /\ w = 0 /\ nextCase = None /\ cases = <<>> /\ routines = {}

\* allocate `n` plain entries of a role for class c starting at id `from`
Plain(c, role, n, from) == [i \in from..(from + n - 1) |-> Entry(c, role, i - from + 1, i)]
PlainSites(c, role, n, from) == {Site(i, c, role, i - from + 1) : i \in from..(from + n - 1)}

AllocClass ==
  /\ phase = "alloc" /\ todo < MaxClasses
  /\ \E s \in Shapes :
     LET c == todo + 1                                   \* class identity
         u == nextId
         base == IF s.virtual THEN u + 2 ELSE u + 1       \* first id after the collector
         nMeth == s.methods
         seg(role, n, from) == Plain(c, role, n, from)
         a1 == base                                       \* ctors
         a2 == a1 + s.ctors                               \* dtor
         a3 == a2 + 1                                     \* methods
         a4 == a3 + nMeth                                 \* props (get, set alternate)
         a4b == a4 + 2 * s.props                          \* getters of const properties
         a5 == a4b + s.roprops                            \* statics
         a6 == a5 + s.statics                             \* deserialize
         a7 == a6 + (IF s.deser THEN 1 ELSE 0)            \* functions
         a8 == a7 + s.funcs
         coll == IF s.virtual THEN (u + 1 :> Entry(c, "collector", 0, u)) ELSE (u :> Entry(c, "collector", 0, u))
     IN /\ map' = map @@ coll
                  @@ seg("constructor", s.ctors, a1) @@ (a2 :> Entry(c, "deconstructor", 0, a2))
                  @@ seg("method", nMeth, a3)
                  @@ [i \in a4..(a4b - 1) |-> Entry(c, IF (i - a4) % 2 = 0 THEN "getter" ELSE "setter", (i - a4) \div 2 + 1, i)]
                  @@ [i \in a4b..(a5 - 1) |-> Entry(c, "getter", s.props + (i - a4b) + 1, i)]
                  @@ seg("static", s.statics, a5)
                  @@ (IF s.deser THEN (a6 :> Entry(c, "deserialize", 0, a6)) ELSE <<>>)
                  @@ seg("function", s.funcs, a7)
        /\ sites' = sites
                  \cup (IF s.virtual THEN {Site(u + 1, c, "upcast", 0), Site(u, c, "collector", 0)} ELSE {Site(u, c, "collector", 0)})
                  \cup PlainSites(c, "constructor", s.ctors, a1) \cup {Site(a2, c, "deconstructor", 0)}
                  \cup PlainSites(c, "method", nMeth, a3)
                  \cup {Site(i, c, IF (i - a4) % 2 = 0 THEN "getter" ELSE "setter", (i - a4) \div 2 + 1) : i \in a4..(a4b - 1)}
                  \cup {Site(i, c, "getter", s.props + (i - a4b) + 1) : i \in a4b..(a5 - 1)}
                  \cup PlainSites(c, "static", s.statics, a5)
                  \cup (IF s.deser THEN {Site(a6, c, "deserialize", 0)} ELSE {})
                  \cup PlainSites(c, "function", s.funcs, a7)
        /\ nextId' = a8
  /\ todo' = todo + 1
  /\ UNCHANGED <<phase, w, nextCase, cases, routines>>

StartEmit == phase = "alloc" /\ phase' = "emit" /\ UNCHANGED <<todo, nextId, map, sites, w, nextCase, cases, routines>>

\* one step of the walk 0..nextId-1 (mex_function and generate_wrapper use the same skip logic)
Upcast(e, id) == [name |-> <<e.cls, "upcast", 0, id>>, cls |-> e.cls, role |-> "upcast", k |-> 0]
EmitStep ==
  /\ phase = "emit" /\ w < nextId
  /\ LET direct == IF w \in DOMAIN map THEN map[w] ELSE None
         ahead == IF w + 1 \in DOMAIN map THEN map[w + 1] ELSE None
         idval == IF direct # None THEN direct ELSE ahead
         setNext == direct = None /\ ahead # None
     IN IF idval = None
        THEN UNCHANGED <<cases, routines, nextCase>>
        ELSE /\ cases' = cases @@ (w :> IF nextCase # None THEN nextCase ELSE idval)
             /\ routines' = routines \cup (IF direct # None THEN {direct} ELSE {})
                                      \cup (IF nextCase # None THEN {nextCase} ELSE {})
             /\ nextCase' = IF setNext THEN Upcast(idval, w + 1) ELSE None
  /\ w' = w + 1
  /\ UNCHANGED <<todo, nextId, map, sites, phase>>

Next == AllocClass \/ StartEmit \/ EmitStep
Spec == Init /\ [][Next]_vars

Done == phase = "emit" /\ w = nextId
\* C05: ids contiguous from zero, every id has exactly one call site and one case, and the case runs the routine of
\* the very same class, role and overload; every routine is reachable from exactly one case
Consistent == Done =>
  /\ {s.id : s \in sites} = 0..(nextId - 1)
  /\ Cardinality(sites) = nextId
  /\ DOMAIN cases = 0..(nextId - 1)
  /\ \A s \in sites : cases[s.id].cls = s.cls /\ cases[s.id].role = s.role /\ cases[s.id].k = s.k
  /\ \A r \in routines : Cardinality({i \in DOMAIN cases : cases[i] = r}) = 1
  /\ \A i \in DOMAIN cases : cases[i] \in routines
=============================================================================
