------------------------------ MODULE InstLaws ------------------------------
(* TLC checks the C08 / C13 laws of the instantiation oracle on the instantiation-shape universe. *)
EXTENDS IfaceExh
CapsTable == [s \in {"double", "Pose3", "B", "C", "D", "CD", "BC", "BCD", "3", "size_t", "T", "U", "V", "M"} |->
                CASE s = "double" -> "Double" [] s = "size_t" -> "Size_t" [] OTHER -> s]
INSTANCE Variants WITH Caps <- CapsTable, Mode <- "spec"
Classes == { ClassN("Foo", tm, FALSE, FALSE, NoType, FooMembers(tm)) : tm \in InstTmpls }
VARIABLE done
LInit == Init /\ done = FALSE
LNext == ~done /\ done' = TRUE /\ UNCHANGED vars
Laws ==
  /\ \A c \in Classes : LawProductCount(TmplLists(c.tmpl)) /\ LawProductOrder(TmplLists(c.tmpl))
  /\ \A c \in Classes : LawIndependent(AbsClass(c), <<"a">>)
  /\ \A c \in Classes : HasLists(c) => \A j \in 1..NCombos(c) : LawSingle(c, <<"a">>, j)
  /\ \A c \in Classes : LawRename(c, <<>>)
  /\ \A c \in Classes : HasLists(c) => LawReverse(c, <<"a", "b">>)
  /\ \A c \in Classes : (\E i \in 1..Len(c.tmpl) : c.tmpl[i].insts = <<>>) => IClassAll(AbsClass(c), <<>>) = <<>>

LawsHold == done => Laws
=============================================================================
