SPECIFICATION Spec
CONSTANT Mode = "dev"
POSTCONDITION Accepted
CHECK_DEADLOCK FALSE
